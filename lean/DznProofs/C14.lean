/-
  C14 — Name lookup returns exactly the declarations on the scope chain.  (property theorems)
-/
import DznModel
import DznProofs.Lemmas.Scoping
open Py Scoping Ast AstView

namespace C14

theorem chain_nil (name : Ids) : Spec.chain name [] = [name] := by
  simp [Spec.chain]

theorem chain_cons (name : Ids) (scope : Ids) (h : scope ≠ []) :
    Spec.chain name scope = (scope ++ name) :: Spec.chain name scope.dropLast := by
  obtain ⟨m, hm⟩ : ∃ m, scope.length = m + 1 := by
    cases scope with
    | nil => exact absurd rfl h
    | cons a b => exact ⟨b.length, by simp⟩
  unfold Spec.chain
  rw [List.length_dropLast, hm]
  simp only [Nat.add_sub_cancel]
  conv => lhs; rw [List.range_succ_eq_map]
  simp only [List.map_cons, List.map_map, Nat.sub_zero]
  congr 1
  · rw [← hm, List.take_length]
  · apply List.map_congr_left
    intro i hi
    simp only [Function.comp, List.mem_range] at hi ⊢
    congr 1
    rw [List.dropLast_eq_take, List.take_take, hm]
    congr 1
    omega

/-- **C14 (resolution order)**: the candidates, innermost to outermost -/
theorem order (name scope : Ids) : scopeResolutionOrder name scope = Spec.chain name scope := by
  generalize hn : scope.length = n
  induction n generalizing scope with
  | zero =>
    have : scope = [] := by simpa using hn
    subst this
    rw [scopeResolutionOrder]; simp [chain_nil]
  | succ n ih =>
    have hne : scope ≠ [] := by intro e; subst e; simp at hn
    rw [scopeResolutionOrder, dif_neg hne, chain_cons name scope hne,
      ih scope.dropLast (by simp [List.length_dropLast, hn])]

/-- **C14 (find_fqn)**: exactly the declarations whose fqn lies on the scope chain, in container
    order; imports and file names are not declarations (`FC.decls`) -/
theorem find_fqn_spec (f : FC) (name scope : Ids) :
    findFqn f name scope = Spec.findFqnSpec f name scope := by
  unfold findFqn Spec.findFqnSpec
  rw [order]
  apply List.filter_congr
  intro d _
  simp [List.any_eq, eq_comm]

theorem pyEndsWith_eq (fqn ends : Ids) (h : ends ≠ []) :
    pyEndsWith fqn ends = decide (ends <:+ fqn) := by
  unfold pyEndsWith
  have hl : ends.length ≠ 0 := by simpa using h
  simp only [hl, if_false]
  apply decide_eq_decide.mpr
  rw [List.suffix_iff_eq_drop]
  exact eq_comm

/-- **C14 (suffix search)**: exactly the declarations whose qualified name ends with the given
    identifiers (at least one identifier) -/
theorem find_any_spec (f : FC) (ends : Ids) (h : ends ≠ []) :
    findAny f ends = Spec.findAnySpec f ends := by
  unfold findAny Spec.findAnySpec
  apply List.filter_congr
  intro d _
  rw [pyEndsWith_eq _ _ h]
  by_cases hs : ends <:+ d.fqn
  · simp [hs, List.isSuffixOf_iff_suffix.mpr hs]
  · have : ends.isSuffixOf d.fqn = false := by
      cases hb : ends.isSuffixOf d.fqn with
      | false => rfl
      | true => exact absurd (List.isSuffixOf_iff_suffix.mp hb) hs
    simp [hs, this]

/-- each declaration at most once and in container order: the result is a sublist -/
theorem each_once (f : FC) (name scope : Ids) : (findFqn f name scope).Sublist f.decls := by
  unfold findFqn; exact List.filter_sublist

/-! ### validity of every NamespaceIds value handed out -/

theorem mkIds_valid {l r : Ids} (h : mkIds l = .ok r) : validIds r = true := by
  unfold mkIds at h; split at h
  · injection h with h; subst h; assumption
  · cases h

theorem validIds_append (a b : Ids) : validIds (a ++ b) = (validIds a && validIds b) := by
  simp [validIds]

theorem validIds_dropLast (a : Ids) (h : validIds a = true) : validIds a.dropLast = true := by
  simp only [validIds, List.all_eq_true] at *
  intro x hx; exact h x (List.dropLast_subset a hx)

theorem validIds_take (a : Ids) (n : Nat) (h : validIds a = true) : validIds (a.take n) = true := by
  simp only [validIds, List.all_eq_true] at *
  intro x hx; exact h x (List.mem_of_mem_take hx)

/-- every value produced by `+`, `fqn`, `fqn_member_name`, `scope_resolution_order`,
    `namespaceids_t` from valid inputs consists of valid identifiers only -/
theorem valid_ids :
    (∀ l r, mkIds l = .ok r → validIds r = true) ∧
    (∀ a b : Ids, validIds a = true → validIds b = true → validIds (a ++ b) = true) ∧
    (∀ (t : NsTree), (∀ s ∈ t.scopes, validIds s = true) → validIds t.fqn = true) ∧
    (∀ (t : NsTree) (m : Ids), (∀ s ∈ t.scopes, validIds s = true) → validIds m = true →
        validIds (t.fqnMember m) = true) ∧
    (∀ name scope : Ids, validIds name = true → validIds scope = true →
        ∀ q ∈ scopeResolutionOrder name scope, validIds q = true) ∧
    (∀ arg r, (∀ i, arg = .ids i → validIds i = true) → namespaceidsT arg = .ok r → validIds r = true) := by
  refine ⟨fun l r h => mkIds_valid h, ?_, ?_, ?_, ?_, ?_⟩
  · intro a b ha hb; simp [validIds_append, ha, hb]
  · intro t h
    simp only [NsTree.fqn, sumIds, validIds, List.all_eq_true, List.mem_flatten] at *
    rintro x ⟨s, hs, hx⟩; exact h s hs x hx
  · intro t m h hm
    have : validIds t.fqn = true := by
      simp only [NsTree.fqn, sumIds, validIds, List.all_eq_true, List.mem_flatten] at *
      rintro x ⟨s, hs, hx⟩; exact h s hs x hx
    simp [NsTree.fqnMember, validIds_append, this, hm]
  · intro name scope hn hs q hq
    rw [order] at hq
    simp only [Spec.chain, List.mem_map, List.mem_range] at hq
    obtain ⟨i, _, rfl⟩ := hq
    simp [validIds_append, validIds_take _ _ hs, hn]
  · intro arg r harg h
    cases arg with
    | ids i => simp [namespaceidsT] at h; subst h; exact harg i rfl
    | strlist l => exact mkIds_valid h
    | other => cases h
    | str s =>
      simp only [namespaceidsT] at h
      split at h
      · exact mkIds_valid h
      · split at h
        · exact mkIds_valid h
        · split at h <;> exact mkIds_valid h

/-- **C14 (notations)**: for valid identifiers the list, dotted and `::` notations convert
    losslessly -/
theorem notations (ids : Ids) (h : validIds ids = true) :
    namespaceidsT (.strlist ids) = .ok ids ∧
    namespaceidsT (.str (dotted ids)) = .ok ids ∧
    namespaceidsT (.str (colons ids)) = .ok ids := by
  have hmk : mkIds ids = .ok ids := by simp [mkIds, h]
  have hv : ∀ x ∈ ids, validId x = true := by simpa [validIds] using h
  have hch : ∀ x ∈ ids, ∀ c ∈ x, isIdChar c = true := fun x hx => Lem.validId_chars (hv x hx)
  refine ⟨hmk, ?_, ?_⟩
  · cases ids with
    | nil => simp [dotted, join, namespaceidsT, mkIds, validIds]
    | cons a r =>
      cases r with
      | nil =>
        have hne := Lem.validId_ne_nil (hv a (by simp))
        have hd : '.' ∉ a := fun hm => Lem.no_dot (hch a (by simp)) _ hm rfl
        have hc := Lem.hasColons_append_false a (Lem.no_colon (hch a (by simp)))
        simp [dotted, join, namespaceidsT, hne, hd, hc, hmk]
      | cons b r' =>
        have hsplit := Lem.splitChar_join a (b :: r') []
          (fun x hx => Lem.no_dot (hch x hx))
        have hcont : (dotted (a :: b :: r')).contains '.' = true := by
          simp [dotted, join]
        have hne : dotted (a :: b :: r') ≠ [] := by
          intro e; rw [e] at hcont; simp at hcont
        simp only [namespaceidsT, List.isEmpty_iff, hne, if_false, hcont, if_true]
        rw [show splitChar '.' (dotted (a :: b :: r')) [] = a :: b :: r' from by
          simpa [dotted] using hsplit]
        exact hmk
  · cases ids with
    | nil => simp [colons, join, namespaceidsT, mkIds, validIds]
    | cons a r =>
      cases r with
      | nil =>
        have hne := Lem.validId_ne_nil (hv a (by simp))
        have hd : '.' ∉ a := fun hm => Lem.no_dot (hch a (by simp)) _ hm rfl
        have hc := Lem.hasColons_append_false a (Lem.no_colon (hch a (by simp)))
        simp [colons, join, namespaceidsT, hne, hd, hc, hmk]
      | cons b r' =>
        have hsplit := Lem.splitColons_join a (b :: r') []
          (fun x hx => Lem.no_colon (hch x hx))
        have hnodot : (colons (a :: b :: r')).contains '.' = false := by
          cases hb : (colons (a :: b :: r')).contains '.' with
          | false => rfl
          | true =>
            have hm : '.' ∈ join [':', ':'] (a :: b :: r') := by simpa [colons] using hb
            rcases Lem.mem_join hm with h1 | ⟨x, hx, hc⟩
            · simp at h1
            · exact absurd rfl (Lem.no_dot (hch x hx) _ hc)
        have hcol : hasColons (colons (a :: b :: r')) = true := by
          show hasColons (a ++ [':', ':'] ++ join [':', ':'] (b :: r')) = true
          rw [List.append_assoc]
          exact Lem.hasColons_prefix a _ (Lem.no_colon (hch a (by simp)))
        have hne : colons (a :: b :: r') ≠ [] := by
          intro e; rw [e] at hcol; simp [hasColons] at hcol
        simp only [namespaceidsT, List.isEmpty_iff, hne, if_false, hnodot, hcol, if_true]
        rw [show splitColons (colons (a :: b :: r')) [] = a :: b :: r' from by
          simpa [colons] using hsplit]
        exact hmk

example : scopeResolutionOrder [L "I"] [L "A", L "B"] = [[L "A", L "B", L "I"], [L "A", L "I"], [L "I"]] := by
  rw [order]; decide

end C14
