/-
  C04 — A multi-client port delivers out-events only to the client holding the claim.  (**partial**
  while the recorded finding D-9 stands: `Deselect(id)` clears a selection held by another client)
-/
import DznModel
open Py Scoping Ast PortSel Shell Sem

namespace C04

/-- the client-visible operations on a multi-client port -/
inductive Op
  | claim (c : Str) (granted : Bool)     -- claim by client c, answered with / without the granting reply
  | release (c : Str)
  deriving Repr, DecidableEq

/-- what the generated handlers do to the selector (`mcClaim` → `Select`, `mcRelease` → `Deselect`) -/
def selStep (s : Selector) : Op → Selector
  | .claim c true => s.select c
  | .claim _ false => s
  | .release c => s.deselect c

/-- the abstract specification: the holder is the client whose most recent claim was granted and
    who has not released since -/
def specStep (h : Option Str) : Op → Option Str
  | .claim c true => some c
  | .claim _ false => h
  | .release c => if h = some c then none else h

/-- no client releases while *another* client holds the claim -/
def NoForeignRelease : Option Str → List Op → Prop
  | _, [] => True
  | h, op :: ops =>
    (match op with
     | .release c => h = none ∨ h = some c
     | _ => True) ∧ NoForeignRelease (specStep h op) ops

def clientsOf : List Op → List Str
  | [] => []
  | .claim c _ :: r => c :: clientsOf r
  | .release c :: r => c :: clientsOf r

/-- **refinement (partial)**: for every history of claims and releases by registered clients in
    which nobody releases a claim held by somebody else, the generated selector's selection *is*
    the specification's holder — for any number of clients and any history length.
    The full statement (without `NoForeignRelease`) is false of the current code: see
    `foreign_release_witness`. -/
theorem refines_partial (s : Selector) (ops : List Op)
    (hreg : ∀ c ∈ clientsOf ops, c ∈ s.clients)
    (hnf : NoForeignRelease s.selected ops) :
    (ops.foldl selStep s).selected = ops.foldl specStep s.selected ∧
    (ops.foldl selStep s).clients = s.clients := by
  induction ops generalizing s with
  | nil => exact ⟨rfl, rfl⟩
  | cons op r ih =>
    simp only [List.foldl_cons]
    have hc : (selStep s op).clients = s.clients := by
      cases op with
      | claim c g => cases g <;> simp [selStep, Selector.select] <;> split <;> rfl
      | release c => simp [selStep, Selector.deselect]; split <;> rfl
    have hsel : (selStep s op).selected = specStep s.selected op := by
      cases op with
      | claim c g =>
        cases g with
        | false => rfl
        | true =>
          have hm : c ∈ s.clients := hreg c (by simp [clientsOf])
          simp [selStep, specStep, Selector.select, hm]
      | release c =>
        have hm : c ∈ s.clients := hreg c (by simp [clientsOf])
        have hfr := hnf.1
        simp only at hfr
        rcases hfr with h | h <;> simp [selStep, specStep, Selector.deselect, hm, h]
    have := ih (selStep s op)
      (by intro c hc'; rw [hc]; exact hreg c (by cases op <;> simp [clientsOf, hc']))
      (by rw [hsel]; exact hnf.2)
    rw [hsel] at this
    exact ⟨this.1, this.2.trans hc⟩

/-- a claim that is answered otherwise never changes who is selected -/
theorem claim_not_granted_keeps_selection (s : Selector) (c : Str) :
    selStep s (.claim c false) = s := rfl

/-- **soundness**: whoever the specification names as holder got there through a claim of its own
    that was answered with the granting reply -/
theorem sound (h : Option Str) (ops : List Op) (c : Str) (hsel : ops.foldl specStep h = some c)
    (hh : h ≠ some c) : Op.claim c true ∈ ops := by
  induction ops generalizing h with
  | nil => exact absurd hsel hh
  | cons op r ih =>
    simp only [List.foldl_cons] at hsel
    by_cases hm : specStep h op = some c
    · have hop : op = .claim c true := by
        cases op with
        | claim c' g =>
          cases g with
          | true => simp [specStep] at hm; subst hm; rfl
          | false => simp [specStep] at hm; exact absurd hm hh
        | release c' =>
          simp only [specStep] at hm
          split at hm
          · cases hm
          · exact absurd hm hh
      simp [hop]
    · exact List.mem_cons_of_mem _ (ih (specStep h op) hsel hm)

/-- **the recorded finding D-9, proved**: with the current `Deselect`, the history
    [claim A → granted, release B] leaves nobody selected although A still holds the claim -/
theorem foreign_release_witness :
    let s : Selector := { mv := L "m_ppApi", port := L "api", clients := [L "A", L "B"] }
    let h := [Op.claim (L "A") true, Op.release (L "B")]
    (h.foldl selStep s).selected = none ∧ h.foldl specStep s.selected = some (L "A") := by
  decide

/-- the out-event handler delivers to the selected client and to nobody else -/
theorem deliver_to_selected_only (w : World) (n : Nat) (mv evName : Str) (ev : Event) (ps : List LParam)
    (args : List Val) (slot : RSlot) (sel : Selector)
    (hs : w.get slot = some (.ir (.mcDeliver mv evName ps (ps.map (·.name))) ev [] []))
    (hsel : w.selector mv = some sel) (hnone : sel.selected = none) :
    invoke (n + 1) w slot args = (w, .ok none args) := by
  rw [invoke]; simp [hs, hsel, hnone]

/-- **names from the configuration**: the per-client claim and release handlers call exactly the
    configured events of the arbitered port, whatever they are called -/
theorem names_from_configuration (fc : FC) (p : CppPortItf) (mc : McFixture) (as : List Assign)
    (h : initializePortAssigns fc p mc = .ok as) :
    ∀ a ∈ as,
      (∀ mv e ps args g, a.rhs = .mcClaim mv e ps args g → e = mc.claimEvent.name ∧ a.lhs.ev = mc.claimEvent.name) ∧
      (∀ mv e ce ps args, a.rhs = .mcRelease mv e ce ps args →
          ce = mc.releaseEvent.name ∧ a.lhs.ev = mc.releaseEvent.name) := by
  unfold initializePortAssigns at h
  intro a ha
  have hmem : ∀ {α β} (f : α → R β) (l : List α) (r : List β), l.mapM f = .ok r → ∀ b ∈ r, ∃ x ∈ l, f x = .ok b := by
    intro α β f l
    induction l with
    | nil => intro r h; simp [List.mapM_nil, pure, Except.pure] at h; subst h; simp
    | cons x t ih =>
      intro r h
      rw [List.mapM_cons] at h
      simp only [bind, Except.bind, pure, Except.pure] at h
      split at h
      · cases h
      · rename_i b hb
        split at h
        · cases h
        · rename_i bs hbs
          injection h with h; subst h
          intro y hy
          rcases List.mem_cons.mp hy with rfl | hy
          · exact ⟨x, by simp, hb⟩
          · obtain ⟨x', hx', hf⟩ := ih bs hbs y hy
            exact ⟨x', by simp [hx'], hf⟩
  obtain ⟨ev, _, hf⟩ := hmem _ _ _ h a ha
  simp only [bind, Except.bind, pure, Except.pure] at hf
  split at hf
  · split at hf
    · cases hf
    · injection hf with hf; subst hf
      constructor
      · intro mv e ps args g he
        injection he with e1 e2
        exact ⟨e2.symm, rfl⟩
      · intro mv e ce ps args he
        cases he
  · split at hf
    · split at hf
      · cases hf
      · injection hf with hf; subst hf
        constructor
        · intro mv e ps args g he
          cases he
        · intro mv e ce ps args he
          injection he with e1 e2 e3
          exact ⟨e3.symm, rfl⟩
    · injection hf with hf; subst hf
      constructor
      · intro mv e ps args g he
        cases he
      · intro mv e ce ps args he
        cases he

/-- **invalid multi-client settings are configuration errors** -/
theorem cfg_checked (c : MultiClientCfg) (port : Str) (itf : InterfaceD) (fc : FC) (hp : port = c.portName) :
    -- unknown claim event
    ((itf.events.filter (fun e => e.name = c.claimEvent)) = [] →
        checkMulticlientCfg (some c) port itf fc = mcErr) ∧
    -- every failure of the check is the library's multi-client configuration error (or, for an
    -- empty granting value which the constructor already refuses, unreachable)
    (c.grant ≠ [] → ∀ e, checkMulticlientCfg (some c) port itf fc = .error e → e = .lib .MultiClientCfgError) := by
  constructor
  · intro h
    simp [checkMulticlientCfg, hp, h]
  · intro hg e he
    unfold checkMulticlientCfg at he
    simp only [hp, ne_eq, not_true_eq_false, if_false] at he
    split at he
    · cases he; rfl
    · split at he
      · cases he; rfl
      · split at he
        · rename_i hnil; exact absurd hnil hg
        · split at he
          · cases he; rfl
          · split at he
            · cases he; rfl
            · split at he
              · cases he; rfl
              · cases he
      · cases he; rfl

end C04
