/-
  C12 (and C14's "clones the calling scope") on the heap model of the scoping layer: which operations
  write to objects that existed before, which objects are fresh, and that the values agree with the pure
  model the other theorems are about.
-/
import DznModel
import DznModel.ScopingHeap
open Py Scoping ScopingHeap

namespace C12

/-! ### heap lemmas -/

theorem get_alloc_old (h : Heap) (v : Ids) (r : Ref) (hr : r < h.size) : (h.alloc v).1.get r = h.get r := by
  simp only [Heap.alloc, Heap.get, Heap.size] at *
  simp [List.getD_eq_getElem?_getD, List.getElem?_append_left hr]

theorem get_alloc_new (h : Heap) (v : Ids) : (h.alloc v).1.get (h.alloc v).2 = v := by
  simp [Heap.alloc, Heap.get, List.getD_eq_getElem?_getD]

theorem size_alloc (h : Heap) (v : Ids) : (h.alloc v).1.size = h.size + 1 := by
  simp [Heap.alloc, Heap.size]

theorem allocAll_cells (h : Heap) (vs : List Ids) : (h.allocAll vs).1.cells = h.cells ++ vs := by
  induction vs generalizing h with
  | nil => simp [Heap.allocAll]
  | cons v vs ih => simp [Heap.allocAll, ih, Heap.alloc]

theorem allocAll_refs (h : Heap) (vs : List Ids) :
    (h.allocAll vs).2 = (List.range vs.length).map (· + h.size) := by
  induction vs generalizing h with
  | nil => simp [Heap.allocAll]
  | cons v vs ih =>
    simp only [Heap.allocAll, ih, List.length_cons, List.range_succ_eq_map, List.map_cons, List.map_map]
    simp only [Heap.alloc, Heap.size, List.length_append, List.length_cons, List.length_nil]
    congr 1
    · simp
    · apply List.map_congr_left; intro a _; simp; omega

theorem get_allocAll_old (h : Heap) (vs : List Ids) (r : Ref) (hr : r < h.size) :
    (h.allocAll vs).1.get r = h.get r := by
  simp only [Heap.get, allocAll_cells, Heap.size] at *
  simp [List.getD_eq_getElem?_getD, List.getElem?_append_left hr]

theorem get_set_other (h : Heap) (a r : Ref) (v : Ids) (hne : a ≠ r) : (h.set a v).get r = h.get r := by
  simp [Heap.set, Heap.get, List.getD_eq_getElem?_getD, List.getElem?_set_ne hne]

theorem size_set (h : Heap) (a : Ref) (v : Ids) : (h.set a v).size = h.size := by
  simp [Heap.set, Heap.size]

/-! ### one operation -/

/-- **frame**: an operation changes no object that existed before it — except the one object an
    in-place operation (`+=`, `pop`) is applied to -/
theorem step_frame (h h' : Heap) (op : Op) (rs : List Ref) (hs : step h op = .ok (h', rs))
    (r : Ref) (hr : r < h.size) (hm : op.mutates ≠ some r) : h'.get r = h.get r := by
  cases op with
  | fromList items =>
    simp only [step, bind, Except.bind, pure, Except.pure] at hs
    split at hs
    · cases hs
    · injection hs with hs; injection hs with h1 _; subst h1; exact get_alloc_old _ _ _ hr
  | alias a => simp only [step] at hs; injection hs with hs; injection hs with h1 _; subst h1; rfl
  | fromStr s =>
    simp only [step, bind, Except.bind, pure, Except.pure] at hs
    split at hs
    · cases hs
    · injection hs with hs; injection hs with h1 _; subst h1; exact get_alloc_old _ _ _ hr
  | add a b =>
    simp only [step, bind, Except.bind, pure, Except.pure] at hs
    split at hs
    · cases hs
    · injection hs with hs; injection hs with h1 _; subst h1; exact get_alloc_old _ _ _ hr
  | iadd a b =>
    simp only [step] at hs; injection hs with hs; injection hs with h1 _; subst h1
    exact get_set_other _ _ _ _ (by intro e; exact hm (by simp [Op.mutates, e]))
  | pop a =>
    simp only [step] at hs
    split at hs
    · cases hs
    · injection hs with hs; injection hs with h1 _; subst h1
      exact get_set_other _ _ _ _ (by intro e; exact hm (by simp [Op.mutates, e]))
  | deepcopy a =>
    simp only [step] at hs; injection hs with hs; injection hs with h1 _; subst h1
    exact get_alloc_old _ _ _ hr
  | sum xs =>
    simp only [step] at hs; injection hs with hs; injection hs with h1 _; subst h1
    exact get_alloc_old _ _ _ hr
  | sro n s =>
    simp only [step, bind, Except.bind, pure, Except.pure] at hs
    split at hs
    · cases hs
    · injection hs with hs; injection hs with h1 _; subst h1; exact get_allocAll_old _ _ _ hr
  | sroNone n =>
    simp only [step, bind, Except.bind, pure, Except.pure] at hs
    split at hs
    · cases hs
    · injection hs with hs; injection hs with h1 _; subst h1; exact get_allocAll_old _ _ _ hr
  | fqn t =>
    simp only [step] at hs; injection hs with hs; injection hs with h1 _; subst h1
    exact get_alloc_old _ _ _ hr
  | fqnMember t m =>
    simp only [step, bind, Except.bind, pure, Except.pure] at hs
    split at hs
    · cases hs
    · injection hs with hs; injection hs with h1 _; subst h1; exact get_alloc_old _ _ _ hr

/-- the heap never shrinks: objects are never destroyed by an operation -/
theorem step_grows (h h' : Heap) (op : Op) (rs : List Ref) (hs : step h op = .ok (h', rs)) :
    h.size ≤ h'.size := by
  cases op <;> simp only [step, bind, Except.bind, pure, Except.pure] at hs
  case alias a => injection hs with hs; injection hs with h1 _; subst h1; exact Nat.le_refl _
  case iadd a b => injection hs with hs; injection hs with h1 _; subst h1; rw [size_set]; exact Nat.le_refl _
  case pop a =>
    split at hs
    · cases hs
    · injection hs with hs; injection hs with h1 _; subst h1; rw [size_set]; exact Nat.le_refl _
  case deepcopy a => injection hs with hs; injection hs with h1 _; subst h1; rw [size_alloc]; omega
  case sum xs => injection hs with hs; injection hs with h1 _; subst h1; rw [size_alloc]; omega
  case fqn t => injection hs with hs; injection hs with h1 _; subst h1; rw [size_alloc]; omega
  all_goals
    split at hs
    · cases hs
    · injection hs with hs; injection hs with h1 _; subst h1
      first
        | (rw [size_alloc]; omega)
        | (simp only [Heap.size, allocAll_cells, List.length_append]; omega)

/-- **freshness**: every object returned by `+`, `deepcopy`, `sum_namespaceids_items`,
    `scope_resolution_order`, `fqn`, `fqn_member_name` and the conversions from a new list or a string is
    a new object — it shares its list with nothing that existed before -/
theorem step_fresh (h h' : Heap) (op : Op) (rs : List Ref) (hs : step h op = .ok (h', rs))
    (ha : op.allocates = true) : ∀ r ∈ rs, h.size ≤ r := by
  have one : ∀ (v : Ids) (r : Ref), r ∈ [(h.alloc v).2] → h.size ≤ r := by
    intro v r hr
    simp only [List.mem_singleton] at hr
    subst hr
    exact Nat.le_refl _
  have many : ∀ (vs : List Ids) (r : Ref), r ∈ (h.allocAll vs).2 → h.size ≤ r := by
    intro vs r hr
    rw [allocAll_refs] at hr
    simp only [List.mem_map, List.mem_range] at hr
    obtain ⟨k, _, rfl⟩ := hr
    omega
  cases op with
  | alias a => simp [Op.allocates] at ha
  | iadd a b => simp [Op.allocates] at ha
  | pop a => simp [Op.allocates] at ha
  | fromList items =>
    simp only [step, bind, Except.bind, pure, Except.pure] at hs
    split at hs
    · cases hs
    · injection hs with hs; injection hs with _ h2; subst h2; exact one _
  | fromStr s =>
    simp only [step, bind, Except.bind, pure, Except.pure] at hs
    split at hs
    · cases hs
    · injection hs with hs; injection hs with _ h2; subst h2; exact one _
  | add a b =>
    simp only [step, bind, Except.bind, pure, Except.pure] at hs
    split at hs
    · cases hs
    · injection hs with hs; injection hs with _ h2; subst h2; exact one _
  | deepcopy a =>
    simp only [step] at hs; injection hs with hs; injection hs with _ h2; subst h2; exact one _
  | sum xs =>
    simp only [step] at hs; injection hs with hs; injection hs with _ h2; subst h2; exact one _
  | fqn t =>
    simp only [step] at hs; injection hs with hs; injection hs with _ h2; subst h2; exact one _
  | fqnMember t m =>
    simp only [step, bind, Except.bind, pure, Except.pure] at hs
    split at hs
    · cases hs
    · injection hs with hs; injection hs with _ h2; subst h2; exact one _
  | sro n sc =>
    simp only [step, bind, Except.bind, pure, Except.pure] at hs
    split at hs
    · cases hs
    · injection hs with hs; injection hs with _ h2; subst h2; exact many _
  | sroNone n =>
    simp only [step, bind, Except.bind, pure, Except.pure] at hs
    split at hs
    · cases hs
    · injection hs with hs; injection hs with _ h2; subst h2; exact many _

/-! ### agreement with the pure model -/

theorem mapM_mkIds_ok (vs ws : List Ids) (h : vs.mapM mkIds = .ok ws) : ws = vs := by
  induction vs generalizing ws with
  | nil => simp [List.mapM_nil, pure, Except.pure] at h; exact h
  | cons v vs ih =>
    simp only [List.mapM_cons, bind, Except.bind, pure, Except.pure] at h
    split at h
    · cases h
    · rename_i a ha
      split at h
      · cases h
      · rename_i b hb
        injection h with h; subst h
        have : a = v := by
          unfold mkIds at ha; split at ha
          · injection ha with ha; exact ha.symm
          · cases ha
        rw [this, ih b hb]

/-- the values of the objects `scope_resolution_order` returns are those of the pure model
    (`Scoping.scopeResolutionOrder`, which `C14.order` characterises) -/
theorem sro_refines (h h' : Heap) (n s : Ref) (rs : List Ref) (hs : step h (.sro n s) = .ok (h', rs)) :
    rs.map h'.get = scopeResolutionOrder (h.get n) (h.get s) := by
  simp only [step, bind, Except.bind, pure, Except.pure] at hs
  split at hs
  · cases hs
  · rename_i vs hvs
    injection hs with hs; injection hs with h1 h2; subst h1; subst h2
    have hv := mapM_mkIds_ok _ _ hvs
    subst hv
    rw [allocAll_refs]
    generalize scopeResolutionOrder (h.get n) (h.get s) = xs
    apply List.ext_getElem
    · simp
    · intro i h1 h2
      simp only [List.getElem_map, List.getElem_range, Heap.get, allocAll_cells, Heap.size]
      rw [List.getD_eq_getElem?_getD, List.getElem?_append_right (by omega)]
      simp [List.getElem?_eq_getElem h2]

/-- `a + b` is a new object holding the concatenation; neither operand changes -/
theorem add_refines (h h' : Heap) (a b : Ref) (rs : List Ref) (hs : step h (.add a b) = .ok (h', rs)) :
    rs.map h'.get = [h.get a ++ h.get b] := by
  simp only [step, bind, Except.bind, pure, Except.pure] at hs
  split at hs
  · cases hs
  · rename_i v hv
    injection hs with hs; injection hs with h1 h2; subst h1; subst h2
    have : v = h.get a ++ h.get b := by
      unfold mkIds at hv; split at hv
      · injection hv with hv; exact hv.symm
      · cases hv
    simp [get_alloc_new, this]

/-- `a += b` extends the object `a` itself (and returns it) -/
theorem iadd_in_place (h : Heap) (a b : Ref) (ha : a < h.size) :
    ∃ h', step h (.iadd a b) = .ok (h', [a]) ∧ h'.get a = h.get a ++ h.get b := by
  refine ⟨_, rfl, ?_⟩
  simp only [Heap.set, Heap.get, Heap.size] at *
  simp [List.getD_eq_getElem?_getD, ha]

/-! ### histories -/

/-- **C12 on the scoping layer**: whatever sequence of scoping operations a build performs, as long as it
    applies no in-place operation to an object it was handed, every such object holds at the end what it
    held at the start.  (The library's own in-place uses — the accumulator of `sum_namespaceids_items`,
    the popped copy inside `scope_resolution_order` — act on objects they allocated themselves and are
    inside `step`.) -/
theorem run_frame (h : Heap) (ops : List Op) (r : Ref) (hr : r < h.size)
    (hm : ∀ op ∈ ops, op.mutates ≠ some r) : (run h ops).1.get r = h.get r := by
  induction ops generalizing h with
  | nil => rfl
  | cons op ops ih =>
    simp only [run]
    cases hs : step h op with
    | error e =>
      simp only []
      exact ih h hr (fun p hp => hm p (List.mem_cons_of_mem _ hp))
    | ok p =>
      obtain ⟨h', rs⟩ := p
      simp only []
      have hg := step_grows h h' op rs hs
      have hf := step_frame h h' op rs hs r hr (hm op (List.mem_cons_self))
      rw [ih h' (Nat.lt_of_lt_of_le hr hg) (fun p hp => hm p (List.mem_cons_of_mem _ hp)), hf]

/-- non-vacuity and the aliasing the frozen dataclass does not prevent: `x = namespaceids_t(l)` wraps the
    caller's list, so `x += y` changes what the caller's list holds; `+` and `deepcopy` return new objects -/
example :
    let h0 : Heap := {}
    let r := run h0 [.fromList [L "My"], .alias 0, .fromList [L "Sub"], .iadd 0 1, .fromList [L "I"], .add 0 2,
                     .deepcopy 0, .pop 4, .sum [0, 2]]
    r.1.cells = [[L "My", L "Sub"], [L "Sub"], [L "I"], [L "My", L "Sub", L "I"], [L "My"], [L "My", L "Sub", L "I"]] ∧
    r.2.map (·.toOption) = [some [0], some [0], some [1], some [0], some [2], some [3], some [4], some [], some [5]] := by
  decide

/-- … and `scope_resolution_order` returns fresh objects and leaves both arguments alone -/
example : (step { cells := [[L "My", L "Sub"], [L "I"]] } (.sro 1 0)).toOption =
    some ({ cells := [[L "My", L "Sub"], [L "I"], [L "My", L "Sub", L "I"], [L "My", L "I"], [L "I"]] }, [2, 3, 4]) := by
  simp [step, Heap.get, scopeResolutionOrder, bind, Except.bind, pure, Except.pure, mkIds, validIds, validId,
    isIdStart, isIdChar, Heap.allocAll, Heap.alloc]
  rfl

end C12
