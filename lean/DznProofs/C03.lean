/-
  C03 — Port configuration gives every exposed port exactly one semantics or is rejected.
  (property theorems over DznModel.PortSel; the build-level clauses — uncovered exposed port,
  injected ports — are in DznProofs/C03Build.lean over the shell model)
-/
import DznModel
open Py Scoping PortSel

namespace C03

/-- the model's if/elif chain is the declarative rule: explicitly named first, otherwise the
    covering `all`/`remaining` wildcard -/
theorem semOf_eq_spec (c : SemCfg) (p : Str) : c.semOf p = Spec.sideSem c p := by
  unfold SemCfg.semOf Spec.sideSem
  split
  · rfl
  · split
    · rfl
    · cases hs : c.sts with
      | names s =>
        cases hm : c.mts with
        | names t => rfl
        | wild w => cases w <;> simp
      | wild w =>
        cases hm : c.mts with
        | names t => cases w <;> simp
        | wild w' => cases w <;> cases w' <;> simp

theorem lookup_filterMap (f : Str → Option Sem) (l : List Str) (p : Str) (h : p ∈ l) :
    (l.filterMap (fun q => (f q).map (fun s => (q, s)))).lookup p = f p := by
  induction l with
  | nil => cases h
  | cons a r ih =>
    simp only [List.filterMap_cons]
    by_cases hpa : p = a
    · subst hpa
      cases hf : f p with
      | none =>
        simp only [Option.map_none]
        by_cases hr : p ∈ r
        · rw [ih hr, hf]
        · clear ih h
          induction r with
          | nil => rfl
          | cons b t iht =>
            simp only [List.filterMap_cons]
            have hb : p ≠ b := fun e => hr (by simp [e])
            have ht : p ∉ t := fun e => hr (by simp [e])
            cases f b with
            | none => exact iht ht
            | some s =>
              simp only [Option.map_some, List.lookup]
              have : (p == b) = false := by simpa using hb
              simp [this, iht ht]
      | some s => simp [List.lookup]
    · have hr : p ∈ r := by
        rcases List.mem_cons.mp h with e | e
        · exact absurd e hpa
        · exact e
      cases hf : f a with
      | none => simpa using ih hr
      | some s =>
        have : (p == a) = false := by simpa using hpa
        simp only [Option.map_some, List.lookup, this]
        exact ih hr

theorem lookup_filterMap_not_mem (f : Str → Option Sem) (l : List Str) (p : Str) (h : p ∉ l) :
    (l.filterMap (fun q => (f q).map (fun s => (q, s)))).lookup p = none := by
  induction l with
  | nil => rfl
  | cons a r ih =>
    have ha : p ≠ a := fun e => h (by simp [e])
    have hr : p ∉ r := fun e => h (by simp [e])
    simp only [List.filterMap_cons]
    cases f a with
    | none => exact ih hr
    | some s =>
      have : (p == a) = false := by simpa using ha
      simp [List.lookup, this, ih hr]

theorem matchPorts_lookup (c : SemCfg) (expected : List Str) (m : List (Str × Sem))
    (h : c.matchPorts expected = .ok m) :
    (∀ p ∈ expected, m.lookup p = Spec.sideSem c p) ∧ (∀ p, p ∉ expected → m.lookup p = none) := by
  unfold SemCfg.matchPorts at h
  simp only [adv] at h
  split at h
  · cases h
  · split at h
    · cases h
    · injection h with h; subst h
      exact ⟨fun p hp => by rw [lookup_filterMap _ _ _ hp, semOf_eq_spec],
             fun p hp => lookup_filterMap_not_mem _ _ _ hp⟩

theorem lookup_filter_keys (a : List (Str × Sem)) (ks : List Str) (p : Str) :
    (a.filter (fun kv => !ks.contains kv.1)).lookup p = if p ∈ ks then none else a.lookup p := by
  induction a with
  | nil => simp
  | cons x t ih =>
    obtain ⟨xk, xv⟩ := x
    by_cases hx : xk ∈ ks
    · have hx' : ks.contains xk = true := by simpa using hx
      simp only [List.filter, hx', Bool.not_true]
      rw [ih]
      by_cases hp : p ∈ ks
      · simp [hp]
      · have hne : p ≠ xk := fun e => hp (e ▸ hx)
        have : (p == xk) = false := by simpa using hne
        simp [hp, List.lookup, this]
    · have hx' : ks.contains xk = false := by simpa using hx
      simp only [List.filter, hx', Bool.not_false, List.lookup]
      by_cases hpx : p = xk
      · subst hpx; simp [hx]
      · have : (p == xk) = false := by simpa using hpx
        simp only [this]; exact ih

theorem lookup_none_keys (b : List (Str × Sem)) (p : Str) (h : b.lookup p = none) :
    p ∉ b.map (·.1) := by
  induction b with
  | nil => simp
  | cons x t ih =>
    obtain ⟨k, v⟩ := x
    simp only [List.lookup] at h
    split at h
    · cases h
    · rename_i hk
      have hne : p ≠ k := by simpa using hk
      have := ih h
      intro hm
      simp only [List.map_cons, List.mem_cons] at hm
      rcases hm with e | e
      · exact hne e
      · exact this e

theorem lookup_dictUpdate (a b : List (Str × Sem)) (p : Str) :
    (dictUpdate a b).lookup p = match b.lookup p with | some s => some s | none => a.lookup p := by
  unfold dictUpdate
  rw [List.lookup_append, lookup_filter_keys]
  cases hb : b.lookup p with
  | some s => rfl
  | none =>
    have := lookup_none_keys b p hb
    simp only [this, if_false]; rfl

/-- **C03 (total)**: when the configuration is accepted and matched, every provides port and
    every requires port gets exactly the semantics the rule prescribes (explicitly named, else the
    covering wildcard), and no other name gets any -/
theorem total (c : PortsCfg) (prov req : List Str) (m : List (Str × Sem))
    (h : c.matchAll prov req = .ok m) (hdisj : ∀ p ∈ prov, p ∉ req) :
    (∀ p ∈ prov, m.lookup p = Spec.sideSem c.provides p) ∧
    (∀ p ∈ req, m.lookup p = Spec.sideSem c.requires p) ∧
    (∀ p, p ∉ prov → p ∉ req → m.lookup p = none) := by
  unfold PortsCfg.matchAll at h
  simp only [bind, Except.bind, pure, Except.pure] at h
  split at h
  · cases h
  · rename_i a ha
    split at h
    · cases h
    · rename_i b hb
      injection h with h; subst h
      obtain ⟨ha1, ha2⟩ := matchPorts_lookup _ _ _ ha
      obtain ⟨hb1, hb2⟩ := matchPorts_lookup _ _ _ hb
      refine ⟨?_, ?_, ?_⟩
      · intro p hp
        rw [lookup_dictUpdate, hb2 p (hdisj p hp)]
        exact ha1 p hp
      · intro p hp
        rw [lookup_dictUpdate, hb1 p hp]
        cases hq : Spec.sideSem c.requires p with
        | some s => rfl
        | none =>
          have : p ∉ prov := fun hpp => hdisj p hpp hp
          simp [ha2 p this]
      · intro p h1 h2
        rw [lookup_dictUpdate, hb2 p h2, ha2 p h1]

/-- **C03 (reject)**: each listed fault makes construction or matching fail with the
    configuration error — and nothing is produced -/
theorem reject :
    -- a selection naming a port the component does not have on that side
    (∀ (c : SemCfg) (expected : List Str) (n : Str),
        n ∈ c.sts.strset ++ c.mts.strset → n ∉ expected → c.matchPorts expected = adv) ∧
    -- a port named under both semantics
    (∀ (s t : List Str) (n : Str), n ∈ s → n ∈ t → mkSemCfg (.names s) (.names t) = adv) ∧
    -- `all` combined with anything but `none`
    (∀ (x : PortSelect), x.isNotEmpty = true →
        mkSemCfg (.wild .all) x = adv ∧ mkSemCfg x (.wild .all) = adv) ∧
    -- mixed semantics among provides ports
    (∀ (p r : SemCfg) (m), p.sts.isNotEmpty = true → p.mts.isNotEmpty = true → mkPortsCfg p r m = adv) ∧
    -- empty selections
    (mkPortSelect (.names []) = adv) ∧ (∀ s, [] ∈ s → mkPortSelect (.names s) = adv) := by
  refine ⟨?_, ?_, ?_, ?_, ?_, ?_⟩
  · intro c expected n hn hne
    unfold SemCfg.matchPorts
    have : (c.sts.strset ++ c.mts.strset).any (fun n => !expected.contains n) = true := by
      simp only [List.any_eq_true]
      exact ⟨n, hn, by simpa using hne⟩
    simp only [this, if_true]
  · intro s t n hs ht
    unfold mkSemCfg
    split
    · rfl
    · have : (PortSelect.names s).strset.any ((PortSelect.names t).strset.contains ·) = true := by
        simp only [PortSelect.strset, List.any_eq_true]
        exact ⟨n, hs, by simpa using ht⟩
      simp only [this, if_true]
  · intro x hx
    constructor
    · unfold mkSemCfg
      split
      · rfl
      · split
        · rfl
        · simp [PortSelect.isWildcardAll, hx]
    · unfold mkSemCfg
      split
      · rfl
      · split
        · rfl
        · simp [PortSelect.isWildcardAll, hx]
  · intro p r m h1 h2; simp [mkPortsCfg, h1, h2]
  · rfl
  · intro s hs
    have : s.contains [] = true := by simpa using hs
    show (if s.isEmpty then adv else if s.contains [] then adv else .ok _) = adv
    split
    · rfl
    · first | rfl | rw [if_pos this]

/-- membership-based functions do not see the iteration order of a set -/
theorem contains_perm {a b : List Str} (h : a.Perm b) (p : Str) : a.contains p = b.contains p := by
  by_cases hp : p ∈ a
  · have : p ∈ b := h.mem_iff.mp hp
    simp [hp, this]
  · have : p ∉ b := fun hb => hp (h.mem_iff.mpr hb)
    simp [hp, this]

/-- **C03 (order-free)**: the semantics assigned to a port does not depend on the order in which
    the name sets were built or are iterated -/
theorem order_free (s s' t t' : List Str) (hs : s.Perm s') (ht : t.Perm t') (p : Str) :
    SemCfg.semOf { sts := .names s, mts := .names t } p =
    SemCfg.semOf { sts := .names s', mts := .names t' } p := by
  simp [SemCfg.semOf, PortSelect.strset, hs.mem_iff, ht.mem_iff]

/-- and the matched dictionary, as a lookup function, does not depend on the iteration order of
    the expected port set -/
theorem order_free_expected (c : SemCfg) (e e' : List Str) (h : e.Perm e') (m m' : List (Str × Sem))
    (hm : c.matchPorts e = .ok m) (hm' : c.matchPorts e' = .ok m') (p : Str) :
    m.lookup p = m'.lookup p := by
  obtain ⟨a1, a2⟩ := matchPorts_lookup _ _ _ hm
  obtain ⟨b1, b2⟩ := matchPorts_lookup _ _ _ hm'
  by_cases hp : p ∈ e
  · rw [a1 p hp, b1 p (h.mem_iff.mp hp)]
  · rw [a2 p hp, b2 p (fun hb => hp (h.mem_iff.mpr hb))]

/-- a port never gets two semantics: the result is a function of the port name -/
theorem at_most_one (c : PortsCfg) (prov req : List Str) (m : List (Str × Sem))
    (_h : c.matchAll prov req = .ok m) (p : Str) (s s' : Sem)
    (h1 : m.lookup p = some s) (h2 : m.lookup p = some s') : s = s' := by
  rw [h1] at h2; injection h2

example : (mkPortsCfg { sts := .wild .none, mts := .wild .all }
    { sts := .names [L "r1"], mts := .wild .remaining }).toOption.isSome = true := by decide

end C03
