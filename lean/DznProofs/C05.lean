/-
  C05 — Parsing preserves every declaration of the Dezyne JSON AST with correct names.
  Round trip: parse (encode f) = collect f for every well-formed declaration tree.
-/
import DznModel
open Py Scoping Ast JVal Parser Spec

namespace C05

theorem mapM_map_ok {α β} (enc : α → JVal) (p : JVal → R β) (g : α → β) (l : List α)
    (h : ∀ a ∈ l, p (enc a) = .ok (g a)) : (l.map enc).mapM p = .ok (l.map g) := by
  induction l with
  | nil => rfl
  | cons a r ih =>
    rw [List.map_cons, List.mapM_cons, h a (by simp), ih (fun x hx => h x (by simp [hx]))]
    rfl

theorem mkIds_ok (ids : Ids) (h : validIds ids = true) : mkIds ids = .ok ids := by simp [mkIds, h]

theorem idsOfJson_ok (ids : Ids) (h : validIds ids = true) : idsOfJson (ids.map jstr) = .ok ids := by
  unfold idsOfJson
  have : (ids.map jstr).mapM strOf? = some ids := by
    induction ids with
    | nil => rfl
    | cons a r ih =>
      simp only [validIds, List.all_cons, Bool.and_eq_true] at h
      simp [List.mapM_cons, jstr, strOf?, ih (by simpa [validIds] using h.2)]
  rw [this]; exact mkIds_ok ids h

theorem parseScopeName_enc (ids : Ids) (h : wfName ids = true) :
    parseScopeName (encScopeName ids) = .ok ids := by
  simp only [wfName, Bool.and_eq_true, Bool.not_eq_eq_eq_not, Bool.not_true] at h
  have hne : (ids.map jstr).isEmpty = false := by
    cases ids with
    | nil => simp at h
    | cons a b => rfl
  simp (config := { decide := true }) [parseScopeName, encScopeName, asObj, assertClass, getList,
    lookup, cls, eqStr, bind, Except.bind, hne, idsOfJson_ok ids h.2]


@[simp] theorem isObj_encScopeName (i : Ids) : (encScopeName i).isObj = true := rfl
@[simp] theorem isObj_encFormals (f : List Formal) : (encFormals f).isObj = true := rfl
@[simp] theorem isObj_encPorts (f : List Port) : (encPorts f).isObj = true := rfl
@[simp] theorem isObj_obj (kvs : List (Str × JVal)) : (JVal.obj kvs).isObj = true := rfl

open Lean in
macro "enc_simp" "[" ts:Lean.Parser.Tactic.simpLemma,* "]" : tactic =>
  `(tactic| simp (config := { decide := true }) [eqStr, asObj, assertClass, getList, getStr, tryGetStr,
      getDict, tryGetDict, getInt, lookup, cls, jstr, bind, Except.bind, pure, Except.pure, $ts,*])

theorem parseFormalDirection_enc (d : FormalDir) : parseFormalDirection (encFormalDir d) = .ok d := by
  cases d <;> simp (config := { decide := true }) [parseFormalDirection, encFormalDir]

theorem parseFormal_enc (f : Formal) (h : wfFormal f = true) : parseFormal (encFormal f) = .ok f := by
  unfold wfFormal at h
  enc_simp [parseFormal, encFormal, parseScopeName_enc _ h, parseFormalDirection_enc]

theorem parseFormals_enc (fs : List Formal) (h : fs.all wfFormal = true) :
    parseFormals (encFormals fs) = .ok fs := by
  have := mapM_map_ok encFormal parseFormal id fs
    (fun a ha => parseFormal_enc a (List.all_eq_true.mp h a ha))
  enc_simp [parseFormals, encFormals, this]

theorem parseEventDirection_enc (d : EventDir) : parseEventDirection (encEventDir d) = .ok d := by
  cases d <;> simp (config := { decide := true }) [parseEventDirection, encEventDir]

theorem parseEvent_enc (e : Event) (h : wfEvent e = true) : parseEvent (encEvent e) = .ok e := by
  simp only [wfEvent, Bool.and_eq_true, Bool.or_eq_true, decide_eq_true_eq] at h
  obtain ⟨⟨h1, h2⟩, h3⟩ := h
  have hs : parseSignature (.obj [(L "<class>", .str (L "signature")), (L "type_name", encScopeName e.replyType),
      (L "formals", encFormals e.formals)]) = .ok (e.replyType, e.formals) := by
    enc_simp [parseSignature, parseScopeName_enc _ h1, parseFormals_enc _ h2]
  cases hd : e.dir with
  | in_ =>
    enc_simp [parseEvent, encEvent, hs, parseEventDirection_enc, hd]
    cases e; simp_all
  | out =>
    rcases h3 with h3 | h3
    · simp [hd] at h3
    · have h4 : e.replyType = [L "void"] := h3.1
      have h5 : (e.formals.any fun f => decide (f.dir = FormalDir.out)) = false := by
        have := h3.2
        simp only [List.all_eq_true, decide_eq_true_eq] at this
        simp only [List.any_eq_false, decide_eq_true_eq]
        exact fun x hx => this x hx
      enc_simp [parseEvent, encEvent, hs, parseEventDirection_enc, hd, h4, h5]
      cases e; simp_all


theorem parseEvents_enc (es : List Event) (h : es.all wfEvent = true) :
    parseEvents (.obj [(L "<class>", .str (L "events")), (L "elements", .arr (es.map encEvent))]) = .ok es := by
  have := mapM_map_ok encEvent parseEvent id es
    (fun a ha => parseEvent_enc a (List.all_eq_true.mp h a ha))
  enc_simp [parseEvents, this]

theorem parsePortDirection_enc (d : PortDir) : parsePortDirection (encPortDir d) = .ok d := by
  cases d <;> simp (config := { decide := true }) [parsePortDirection, encPortDir]

theorem parsePort_enc (p : Port) (h : wfPort p = true) : parsePort (encPort p) = .ok p := by
  obtain ⟨name, ty, dir, fs, inj⟩ := p
  simp only [wfPort, Bool.and_eq_true] at h
  have h1 := parseScopeName_enc _ h.1
  have h2 := parseFormals_enc _ h.2
  cases inj with
  | false =>
    enc_simp [parsePort, parseInjected, encPort, h1, parsePortDirection_enc, h2]
  | true =>
    enc_simp [parsePort, parseInjected, encPort, h1, parsePortDirection_enc, h2]

theorem parsePorts_enc (ps : List Port) (h : ps.all wfPort = true) : parsePorts (encPorts ps) = .ok ps := by
  have := mapM_map_ok encPort parsePort id ps
    (fun a ha => parsePort_enc a (List.all_eq_true.mp h a ha))
  enc_simp [parsePorts, encPorts, this]

theorem parseEnum_enc (n : Ids) (f : List Str) (ns : NsTree) (h : wfName n = true) :
    parseEnum (encEnum n f) ns =
      .ok { fqn := ns.fqn ++ n, parent := ns, name := n, fields := f.map jstr } := by
  enc_simp [parseEnum, encEnum, parseFields, parseScopeName_enc _ h, NsTree.fqnMember]

theorem parseSubint_enc (n : Ids) (lo hi : Int) (ns : NsTree) (h : wfName n = true) :
    parseSubint (encSubint n lo hi) ns =
      .ok { fqn := ns.fqn ++ n, parent := ns, name := n, fromV := .int lo, toV := .int hi } := by
  enc_simp [parseSubint, encSubint, parseRange, parseScopeName_enc _ h, NsTree.fqnMember]

theorem parseTypeItem_enc (trail : NsTree) (t : DType) (h : wfType t = true) :
    parseTypeItem trail (encType t) = .ok (collectType trail t) := by
  cases t with
  | enum n f =>
    have := parseEnum_enc n f trail h
    simp only [encType, collectType, parseTypeItem]
    rw [this]
    enc_simp [getClassValue, encEnum, eqStr]
  | subint n lo hi =>
    have := parseSubint_enc n lo hi trail h
    simp only [encType, collectType, parseTypeItem]
    rw [this]
    enc_simp [getClassValue, encSubint, eqStr]
  | unknown c =>
    simp only [wfType, Bool.and_eq_true, decide_eq_true_eq] at h
    simp (config := { decide := true }) [encType, collectType, parseTypeItem, getClassValue, lookup,
      eqStr, bind, Except.bind, pure, Except.pure, h.1, h.2]

theorem filterMap_id_map {α β} (f : α → Option β) (l : List α) :
    (l.map f).filterMap id = l.filterMap f := by
  induction l with
  | nil => rfl
  | cons a r ih => simp [List.filterMap_cons, ih]

theorem parseTypes_enc (trail : NsTree) (ts : List DType) (h : ts.all wfType = true) :
    parseTypes (.obj [(L "<class>", .str (L "types")), (L "elements", .arr (ts.map encType))]) trail
      = .ok (ts.filterMap (collectType trail)) := by
  have := mapM_map_ok encType (parseTypeItem trail) (collectType trail) ts
    (fun a ha => parseTypeItem_enc trail a (List.all_eq_true.mp h a ha))
  enc_simp [parseTypes, this, filterMap_id_map]

theorem parseInstance_enc (i : Instance) (h : wfName i.typeName = true) :
    parseInstance (encInstance i) = .ok i := by
  enc_simp [parseInstance, encInstance, parseScopeName_enc _ h]

theorem parseEndpoint_enc (e : EndPoint) : parseEndpoint (encEndpoint e) = .ok e := by
  cases e with
  | mk p i => cases i <;> enc_simp [parseEndpoint, encEndpoint]

theorem parseBinding_enc (b : Binding) : parseBinding (encBinding b) = .ok b := by
  have h1 : (encEndpoint b.left).isObj = true := by cases b.left with | mk p i => cases i <;> rfl
  have h2 : (encEndpoint b.right).isObj = true := by cases b.right with | mk p i => cases i <;> rfl
  enc_simp [parseBinding, encBinding, parseEndpoint_enc, h1, h2]

/-- every non-namespace element: `parse_element` appends exactly what the specification collects -/
theorem parseElement_leaf (e : DElem) (ns : NsTree) (fc : FC) (h : wfElem e = true)
    (hn : ∀ n es, e ≠ .nspace n es) :
    parseElement (encode e) ns fc = (collect ns fc e, none) := by
  cases e with
  | nspace n es => exact absurd rfl (hn n es)
  | nondict s => simp [encode, parseElement, collect]
  | unknown c =>
    simp only [wfElem, knownClasses, Bool.not_eq_eq_eq_not, Bool.not_true] at h
    have hc : ∀ k ∈ knownClasses, c ≠ k := by
      intro k hk e; subst e; simp [knownClasses] at h hk; simp_all
    rw [encode, parseElement]
    simp (config := { decide := true }) [lookup, eqStr, parseSimple, collect,
      hc (L "namespace") (by simp [knownClasses]), hc (L "component") (by simp [knownClasses]),
      hc (L "enum") (by simp [knownClasses]), hc (L "extern") (by simp [knownClasses]),
      hc (L "foreign") (by simp [knownClasses]), hc (L "file-name") (by simp [knownClasses]),
      hc (L "import") (by simp [knownClasses]), hc (L "interface") (by simp [knownClasses]),
      hc (L "system") (by simp [knownClasses]), hc (L "subint") (by simp [knownClasses])]
  | component n ps =>
    simp only [wfElem, Bool.and_eq_true] at h
    have hp : parseComponentLike (L "component") (encode (.component n ps)) ns =
        .ok { fqn := ns.fqn ++ n, parent := ns, name := n, ports := ps } := by
      enc_simp [parseComponentLike, encode, parseScopeName_enc _ h.1, parsePorts_enc _ h.2, NsTree.fqnMember]
    rw [show parseElement (encode (.component n ps)) ns fc =
        parseSimple (.str (L "component")) (encode (.component n ps)) ns fc from by
      rw [encode, parseElement]; simp (config := { decide := true }) [lookup, cls, eqStr]]
    simp (config := { decide := true }) [parseSimple, eqStr, hp, addTo, collect]
  | foreign n ps =>
    simp only [wfElem, Bool.and_eq_true] at h
    have hp : parseComponentLike (L "foreign") (encode (.foreign n ps)) ns =
        .ok { fqn := ns.fqn ++ n, parent := ns, name := n, ports := ps } := by
      enc_simp [parseComponentLike, encode, parseScopeName_enc _ h.1, parsePorts_enc _ h.2, NsTree.fqnMember]
    rw [show parseElement (encode (.foreign n ps)) ns fc =
        parseSimple (.str (L "foreign")) (encode (.foreign n ps)) ns fc from by
      rw [encode, parseElement]; simp (config := { decide := true }) [lookup, cls, eqStr]]
    simp (config := { decide := true }) [parseSimple, eqStr, hp, addTo, collect]
  | system n ps is bs =>
    simp only [wfElem, Bool.and_eq_true] at h
    have hi := mapM_map_ok encInstance parseInstance id is
      (fun a ha => parseInstance_enc a (by simpa using List.all_eq_true.mp h.2 a ha))
    have hb := mapM_map_ok encBinding parseBinding id bs (fun a _ => parseBinding_enc a)
    have hp : parseSystem (encode (.system n ps is bs)) ns =
        .ok { fqn := ns.fqn ++ n, parent := ns, name := n, ports := ps, instances := is, bindings := bs } := by
      enc_simp [parseSystem, parseInstances, parseBindings, encode, parseScopeName_enc _ h.1.1,
        parsePorts_enc _ h.1.2, NsTree.fqnMember, hi, hb]
    rw [show parseElement (encode (.system n ps is bs)) ns fc =
        parseSimple (.str (L "system")) (encode (.system n ps is bs)) ns fc from by
      rw [encode, parseElement]; simp (config := { decide := true }) [lookup, cls, eqStr]]
    simp (config := { decide := true }) [parseSimple, eqStr, hp, addTo, collect]
  | interface n ts es =>
    simp only [wfElem, Bool.and_eq_true] at h
    have hp : parseInterface (encode (.interface n ts es)) ns =
        .ok { fqn := ns.fqn ++ n, parent := ns, trail := ns.push n, name := n,
              types := ts.filterMap (collectType (ns.push n)), events := es } := by
      enc_simp [parseInterface, encode, parseScopeName_enc _ h.1.1, parseTypes_enc _ _ h.1.2,
        parseEvents_enc _ h.2, NsTree.fqnMember]
    rw [show parseElement (encode (.interface n ts es)) ns fc =
        parseSimple (.str (L "interface")) (encode (.interface n ts es)) ns fc from by
      rw [encode, parseElement]; simp (config := { decide := true }) [lookup, cls, eqStr]]
    simp (config := { decide := true }) [parseSimple, eqStr, hp, addTo, collect]
  | enum n f =>
    simp only [wfElem] at h
    rw [show parseElement (encode (.enum n f)) ns fc =
        parseSimple (.str (L "enum")) (encode (.enum n f)) ns fc from by
      rw [encode, encEnum, parseElement]; simp (config := { decide := true }) [lookup, cls, eqStr]]
    simp (config := { decide := true }) [parseSimple, eqStr, encode, parseEnum_enc n f ns h, addTo, collect]
  | subint n lo hi =>
    simp only [wfElem] at h
    rw [show parseElement (encode (.subint n lo hi)) ns fc =
        parseSimple (.str (L "subint")) (encode (.subint n lo hi)) ns fc from by
      rw [encode, encSubint, parseElement]; simp (config := { decide := true }) [lookup, cls, eqStr]]
    simp (config := { decide := true }) [parseSimple, eqStr, encode, parseSubint_enc n lo hi ns h, addTo, collect]
  | extern n v =>
    simp only [wfElem] at h
    have hp : parseExtern (encode (.extern n v)) ns =
        .ok { fqn := ns.fqn ++ n, parent := ns, name := n, value := v } := by
      enc_simp [parseExtern, parseData, encode, parseScopeName_enc _ h, NsTree.fqnMember]
    rw [show parseElement (encode (.extern n v)) ns fc =
        parseSimple (.str (L "extern")) (encode (.extern n v)) ns fc from by
      rw [encode, parseElement]; simp (config := { decide := true }) [lookup, cls, eqStr]]
    simp (config := { decide := true }) [parseSimple, eqStr, hp, addTo, collect]
  | import_ n =>
    have hp : parseImport (encode (.import_ n)) = .ok n := by enc_simp [parseImport, encode]
    rw [show parseElement (encode (.import_ n)) ns fc =
        parseSimple (.str (L "import")) (encode (.import_ n)) ns fc from by
      rw [encode, parseElement]; simp (config := { decide := true }) [lookup, cls, eqStr]]
    simp (config := { decide := true }) [parseSimple, eqStr, hp, addTo, collect]
  | filename n =>
    have hp : parseFilename (encode (.filename n)) = .ok n := by enc_simp [parseFilename, encode]
    rw [show parseElement (encode (.filename n)) ns fc =
        parseSimple (.str (L "file-name")) (encode (.filename n)) ns fc from by
      rw [encode, parseElement]; simp (config := { decide := true }) [lookup, cls, eqStr]]
    simp (config := { decide := true }) [parseSimple, eqStr, hp, addTo, collect]


theorem lookupW_val (k : Str) (kvs : List (Str × JVal)) (v : JVal) (h : lookup k kvs = some v) :
    ∃ p, lookupW k kvs = some ⟨v, p⟩ := by
  unfold lookupW
  split
  · rename_i h'; rw [h] at h'; cases h'
  · rename_i v' h'; rw [h] at h'; injection h' with h'; subst h'; exact ⟨lookup_sizeOf h, rfl⟩

theorem parseNamespaceHead_enc (n : Ids) (js : List JVal) (h : wfName n = true) :
    ∃ p, parseNamespaceHead [(L "<class>", .str (L "namespace")), (L "name", encScopeName n),
        (L "elements", .arr js)] = .ok (n, ⟨js, p⟩) := by
  obtain ⟨p, hp⟩ := lookupW_val (L "elements") [(L "<class>", .str (L "namespace")),
      (L "name", encScopeName n), (L "elements", .arr js)] (.arr js)
    (by simp (config := { decide := true }) [lookup])
  have hsz : sizeOf (JVal.arr js) = 1 + sizeOf js := by simp
  refine ⟨by omega, ?_⟩
  unfold parseNamespaceHead
  rw [hp]
  enc_simp [parseScopeName_enc _ h]

mutual
/-- `parse_element` on the encoding of any well-formed element appends exactly what the
    specification collects (and raises nothing) -/
theorem parseElement_enc (e : DElem) (ns : NsTree) (fc : FC) (h : wfElem e = true) :
    parseElement (encode e) ns fc = (collect ns fc e, none) := by
  match e with
  | .nspace n es =>
    simp only [wfElem, Bool.and_eq_true] at h
    obtain ⟨p, hp⟩ := parseNamespaceHead_enc n (encodeL es) h.1
    rw [encode, parseElement]
    simp (config := { decide := true }) only [lookup, cls, eqStr, if_true, if_false]
    rw [hp]
    simp only [collect]
    exact parseElements_enc es (ns.push n) fc h.2
  | .component n ps => exact parseElement_leaf _ ns fc h (by intro _ _ e; cases e)
  | .foreign n ps => exact parseElement_leaf _ ns fc h (by intro _ _ e; cases e)
  | .system n ps is bs => exact parseElement_leaf _ ns fc h (by intro _ _ e; cases e)
  | .interface n ts es => exact parseElement_leaf _ ns fc h (by intro _ _ e; cases e)
  | .enum n f => exact parseElement_leaf _ ns fc h (by intro _ _ e; cases e)
  | .subint n lo hi => exact parseElement_leaf _ ns fc h (by intro _ _ e; cases e)
  | .extern n v => exact parseElement_leaf _ ns fc h (by intro _ _ e; cases e)
  | .import_ n => exact parseElement_leaf _ ns fc h (by intro _ _ e; cases e)
  | .filename n => exact parseElement_leaf _ ns fc h (by intro _ _ e; cases e)
  | .unknown c => exact parseElement_leaf _ ns fc h (by intro _ _ e; cases e)
  | .nondict s => exact parseElement_leaf _ ns fc h (by intro _ _ e; cases e)
theorem parseElements_enc (es : List DElem) (ns : NsTree) (fc : FC) (h : wfElems es = true) :
    parseElements (encodeL es) ns fc = (collectL ns fc es, none) := by
  match es with
  | [] => rw [encodeL, parseElements]; rfl
  | e :: rest =>
    simp only [wfElems, Bool.and_eq_true] at h
    rw [encodeL, parseElements, parseElement_enc e ns fc h.1]
    simp only [collectL]
    exact parseElements_enc rest ns (collect ns fc e) h.2
end

/-- **C05 (round trip)**: for every well-formed Dezyne declaration tree `es` (arbitrary namespace
    nesting, multi-identifier and re-opened namespaces, any mix and order of declarations, empty
    containers, unknown classes and non-dict elements), parsing its JSON encoding yields exactly
    the depth-first collection: one entry per declaration, fully qualified by its enclosing
    namespaces, all fields as written, source order per container, nothing invented or dropped -/
theorem roundtrip (es : List DElem) (h : wfElems es = true) :
    parse (encodeRoot es) = .ok (collectL {} {} es) := by
  have hr : parseRoot (encodeRoot es) = .ok (encodeL es) := by
    enc_simp [parseRoot, parseRootComment, encodeRoot]
  simp only [parse, processFrom, hr, parseElements_enc es {} {} h]

/-- element classes the parser does not know (and non-dict elements) are skipped without
    affecting their siblings -/
theorem unknown_skipped (a b : List DElem) (c : Str) (ns : NsTree) (fc : FC) :
    collectL ns fc (a ++ [.unknown c] ++ b) = collectL ns fc (a ++ b) ∧
    ∀ s, collectL ns fc (a ++ [.nondict s] ++ b) = collectL ns fc (a ++ b) := by
  have key : ∀ (x : DElem), (∀ ns fc, collect ns fc x = fc) →
      ∀ a ns fc, collectL ns fc (a ++ [x] ++ b) = collectL ns fc (a ++ b) := by
    intro x hx a
    induction a with
    | nil => intro ns fc; simp [collectL, hx]
    | cons y r ih => intro ns fc; simp only [List.cons_append, collectL]; exact ih _ _
  exact ⟨key _ (fun _ _ => rfl) a ns fc, fun s => key _ (fun _ _ => rfl) a ns fc⟩


/-- every declaration carries the fully qualified name formed by its enclosing namespaces -/
def FqnOk (f : FC) : Prop := ∀ d ∈ f.decls, d.fqn = d.parent.fqn ++ d.name

theorem fqnOk_of_parts (f : FC)
    (h1 : ∀ d ∈ f.components, d.fqn = d.parent.fqn ++ d.name)
    (h2 : ∀ d ∈ f.enums, d.fqn = d.parent.fqn ++ d.name)
    (h3 : ∀ d ∈ f.externs, d.fqn = d.parent.fqn ++ d.name)
    (h4 : ∀ d ∈ f.foreigns, d.fqn = d.parent.fqn ++ d.name)
    (h5 : ∀ d ∈ f.interfaces, d.fqn = d.parent.fqn ++ d.name)
    (h6 : ∀ d ∈ f.subints, d.fqn = d.parent.fqn ++ d.name)
    (h7 : ∀ d ∈ f.systems, d.fqn = d.parent.fqn ++ d.name) : FqnOk f := by
  intro d hd
  simp only [FC.decls, List.mem_append, List.mem_map] at hd
  rcases hd with (((((⟨x, hx, rfl⟩ | ⟨x, hx, rfl⟩) | ⟨x, hx, rfl⟩) | ⟨x, hx, rfl⟩) | ⟨x, hx, rfl⟩) | ⟨x, hx, rfl⟩) | ⟨x, hx, rfl⟩
  · exact h1 x hx
  · exact h2 x hx
  · exact h3 x hx
  · exact h4 x hx
  · exact h5 x hx
  · exact h6 x hx
  · exact h7 x hx

theorem parts_of_fqnOk (f : FC) (h : FqnOk f) :
    (∀ d ∈ f.components, d.fqn = d.parent.fqn ++ d.name) ∧
    (∀ d ∈ f.enums, d.fqn = d.parent.fqn ++ d.name) ∧
    (∀ d ∈ f.externs, d.fqn = d.parent.fqn ++ d.name) ∧
    (∀ d ∈ f.foreigns, d.fqn = d.parent.fqn ++ d.name) ∧
    (∀ d ∈ f.interfaces, d.fqn = d.parent.fqn ++ d.name) ∧
    (∀ d ∈ f.subints, d.fqn = d.parent.fqn ++ d.name) ∧
    (∀ d ∈ f.systems, d.fqn = d.parent.fqn ++ d.name) := by
  refine ⟨?_, ?_, ?_, ?_, ?_, ?_, ?_⟩ <;> intro d hd
  · exact h (.component d) (by simp [FC.decls, hd])
  · exact h (.enum d) (by simp [FC.decls, hd])
  · exact h (.extern d) (by simp [FC.decls, hd])
  · exact h (.foreign d) (by simp [FC.decls, hd])
  · exact h (.interface d) (by simp [FC.decls, hd])
  · exact h (.subint d) (by simp [FC.decls, hd])
  · exact h (.system d) (by simp [FC.decls, hd])

theorem collectType_fqn (trail : NsTree) (t : DType) :
    ∀ x, collectType trail t = some x →
      (match x with | .enum e => e.fqn = e.parent.fqn ++ e.name | .subint s => s.fqn = s.parent.fqn ++ s.name) := by
  intro x hx
  cases t <;> simp [collectType] at hx <;> subst hx <;> rfl

mutual
theorem collect_fqnOk (e : DElem) (ns : NsTree) (fc : FC) (h : FqnOk fc) : FqnOk (collect ns fc e) := by
  obtain ⟨h1, h2, h3, h4, h5, h6, h7⟩ := parts_of_fqnOk fc h
  match e with
  | .nspace n es => simp only [collect]; exact collectL_fqnOk es (ns.push n) fc h
  | .unknown c => exact h
  | .nondict s => exact h
  | .import_ n => exact fqnOk_of_parts _ h1 h2 h3 h4 h5 h6 h7
  | .filename n => exact fqnOk_of_parts _ h1 h2 h3 h4 h5 h6 h7
  | .component n ps =>
    refine fqnOk_of_parts _ ?_ h2 h3 h4 h5 h6 h7
    intro d hd; simp only [collect, List.mem_append, List.mem_singleton] at hd
    rcases hd with hd | rfl
    · exact h1 d hd
    · rfl
  | .foreign n ps =>
    refine fqnOk_of_parts _ h1 h2 h3 ?_ h5 h6 h7
    intro d hd; simp only [collect, List.mem_append, List.mem_singleton] at hd
    rcases hd with hd | rfl
    · exact h4 d hd
    · rfl
  | .system n ps is bs =>
    refine fqnOk_of_parts _ h1 h2 h3 h4 h5 h6 ?_
    intro d hd; simp only [collect, List.mem_append, List.mem_singleton] at hd
    rcases hd with hd | rfl
    · exact h7 d hd
    · rfl
  | .enum n f =>
    refine fqnOk_of_parts _ h1 ?_ h3 h4 h5 h6 h7
    intro d hd; simp only [collect, List.mem_append, List.mem_singleton] at hd
    rcases hd with hd | rfl
    · exact h2 d hd
    · rfl
  | .subint n lo hi =>
    refine fqnOk_of_parts _ h1 h2 h3 h4 h5 ?_ h7
    intro d hd; simp only [collect, List.mem_append, List.mem_singleton] at hd
    rcases hd with hd | rfl
    · exact h6 d hd
    · rfl
  | .extern n v =>
    refine fqnOk_of_parts _ h1 h2 ?_ h4 h5 h6 h7
    intro d hd; simp only [collect, List.mem_append, List.mem_singleton] at hd
    rcases hd with hd | rfl
    · exact h3 d hd
    · rfl
  | .interface n ts es =>
    refine fqnOk_of_parts _ h1 ?_ h3 h4 ?_ ?_ h7
    · intro d hd; simp only [collect, List.mem_append] at hd
      rcases hd with hd | hd
      · exact h2 d hd
      · simp only [InterfaceD.enums, List.mem_filterMap] at hd
        obtain ⟨t, ht, htd⟩ := hd
        obtain ⟨t0, _, ht0⟩ := ht
        have := collectType_fqn (ns.push n) t0 t ht0
        cases t with
        | enum e => simp at htd; subst htd; exact this
        | subint s => simp at htd
    · intro d hd; simp only [collect, List.mem_append, List.mem_singleton] at hd
      rcases hd with hd | rfl
      · exact h5 d hd
      · rfl
    · intro d hd; simp only [collect, List.mem_append] at hd
      rcases hd with hd | hd
      · exact h6 d hd
      · simp only [InterfaceD.subints, List.mem_filterMap] at hd
        obtain ⟨t, ht, htd⟩ := hd
        obtain ⟨t0, _, ht0⟩ := ht
        have := collectType_fqn (ns.push n) t0 t ht0
        cases t with
        | subint e => simp at htd; subst htd; exact this
        | enum s => simp at htd
theorem collectL_fqnOk (es : List DElem) (ns : NsTree) (fc : FC) (h : FqnOk fc) :
    FqnOk (collectL ns fc es) := by
  match es with
  | [] => exact h
  | e :: rest => simp only [collectL]; exact collectL_fqnOk rest ns _ (collect_fqnOk e ns fc h)
end

/-- **C05 (names)**: in the parse result of every well-formed document, every declaration —
    including enums and subints nested in interfaces — has the fully qualified name formed by
    its enclosing namespaces followed by its own name -/
theorem fqn_is_path_plus_name (es : List DElem) (h : wfElems es = true) :
    ∃ f, parse (encodeRoot es) = .ok f ∧ ∀ d ∈ f.decls, d.fqn = d.parent.fqn ++ d.name :=
  ⟨_, roundtrip es h, collectL_fqnOk es {} {} (by intro d hd; simp [FC.decls] at hd)⟩

end C05
