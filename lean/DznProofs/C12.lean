/-
  C12 — Building never alters its inputs and is independent of earlier builds.
  Honest scope (DESIGN §6 C12): the model of the generator is a pure function, so history freedom
  holds of it by construction; what the theorems add is (i) the explicit builder state machine whose
  only state — the recipe of the last build — is never read, and (ii) the stand-alone support files.
  That the *implementation* keeps no other state and mutates nothing is the subject of the tie
  (deep snapshots, fresh-interpreter comparison).
-/
import DznModel
open Py Scoping Ast Shell Support

namespace C12

/-- the `Builder` object: its only attribute is the recipe of the last build -/
structure BuilderObj where
  lastRecipe : Option (FC × Config) := none

/-- `builder.build(cfg)`: stores the recipe, returns the files (or raises) -/
def builderStep (b : BuilderObj) (req : FC × Config) : BuilderObj × R BuildResult :=
  match build req.1 req.2 with
  | .ok r => ({ lastRecipe := some req }, .ok r)
  | .error e => (b, .error e)

def runHistory (b : BuilderObj) : List (FC × Config) → BuilderObj × List (R BuildResult)
  | [] => (b, [])
  | r :: rs =>
    let (b', o) := builderStep b r
    let (b'', os) := runHistory b' rs
    (b'', o :: os)

/-- **history freedom**: whatever sequence of builds (successful or failed, on the same or other
    models) precedes it, a build returns what a first build in a fresh state returns -/
theorem history_free (hist : List (FC × Config)) (req : FC × Config) (b : BuilderObj) :
    (builderStep (runHistory b hist).1 req).2 = (builderStep {} req).2 := by
  unfold builderStep
  cases build req.1 req.2 <;> rfl

/-- the outputs of a history are the outputs of the individual fresh builds -/
theorem build_is_a_function (hist : List (FC × Config)) (b : BuilderObj) :
    (runHistory b hist).2 = hist.map (fun r => build r.1 r.2) := by
  induction hist generalizing b with
  | nil => rfl
  | cons r rs ih =>
    simp only [runHistory, List.map_cons]
    rw [ih]
    congr 1
    unfold builderStep
    cases build r.1 r.2 <;> rfl

/-- **support files stand alone**: the six support files of a build result are exactly those
    generated stand-alone with the same namespace prefix — they do not depend on the model or on
    anything else in the configuration -/
theorem support_files_standalone (fc : FC) (cfg : Config) (r : BuildResult) (h : build fc cfg = .ok r) :
    r.files.drop 2 = Kind.all.map (fun k => createHeader k cfg.pfx) := by
  unfold build at h
  simp only [bind, Except.bind, pure, Except.pure] at h
  split at h
  · cases h
  · injection h with h; subst h; rfl

end C12
