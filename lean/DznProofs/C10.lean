/-
  C10 — Final construction detects every unbound boundary event.
-/
import DznModel
open Py Scoping Ast PortSel Shell Sem

namespace C10

/-- `check_bindings` of a port succeeds exactly when every event of its interface, in both
    directions, has a handler -/
theorem checkPort_none_iff (w : World) (obj : RObj) (itf : InterfaceD) (path : Str) :
    checkPort w obj itf path = none ↔
      ∀ e ∈ itf.events, (w.get ⟨obj, evDirOf e, e.name⟩).isSome = true := by
  unfold checkPort
  constructor
  · intro h e he
    cases hf : (eventsOf itf .in_ ++ eventsOf itf .out).find? (fun e => (w.get ⟨obj, evDirOf e, e.name⟩).isNone) with
    | some x => rw [hf] at h; cases h
    | none =>
      have hall := List.find?_eq_none.mp hf e (by
        simp only [eventsOf, List.mem_append, List.mem_filter]
        cases hd : e.dir <;> simp [he, hd])
      cases hg : w.get ⟨obj, evDirOf e, e.name⟩ <;> simp_all
  · intro h
    have : (eventsOf itf .in_ ++ eventsOf itf .out).find? (fun e => (w.get ⟨obj, evDirOf e, e.name⟩).isNone) = none := by
      apply List.find?_eq_none.mpr
      intro e he
      have hm : e ∈ itf.events := by
        simp only [eventsOf, List.mem_append, List.mem_filter] at he
        rcases he with h1 | h1 <;> exact h1.1
      have := h e hm
      cases hg : w.get ⟨obj, evDirOf e, e.name⟩ <;> simp_all
    rw [this]

/-- a binding error names the port's path and the unbound event -/
theorem checkPort_error (w : World) (obj : RObj) (itf : InterfaceD) (path : Str) (x : Exc)
    (h : checkPort w obj itf path = some x) :
    ∃ e ∈ itf.events, (w.get ⟨obj, evDirOf e, e.name⟩) = none ∧
      x = .bindingError (path ++ L "." ++ (evDirOf e).str ++ L "." ++ e.name) := by
  unfold checkPort at h
  cases hf : (eventsOf itf .in_ ++ eventsOf itf .out).find? (fun e => (w.get ⟨obj, evDirOf e, e.name⟩).isNone) with
  | none => rw [hf] at h; cases h
  | some e =>
    rw [hf] at h
    injection h with h
    have hm := List.mem_of_find?_eq_some hf
    have hp := List.find?_some hf
    refine ⟨e, ?_, ?_, h.symm⟩
    · simp only [eventsOf, List.mem_append, List.mem_filter] at hm
      rcases hm with h1 | h1 <;> exact h1.1
    · cases hg : w.get ⟨obj, evDirOf e, e.name⟩ <;> simp_all

/-- the steps of FinalConstruct never touch the handler store -/
def StoreStable (s : World → World × Option Exc) : Prop :=
  ∀ w, (s w).1.store = w.store ∧ (s w).1.allPorts = w.allPorts

theorem runSteps_some (steps : List (World → World × Option Exc)) (w : World)
    (hst : ∀ s ∈ steps, StoreStable s)
    (bad : World → World × Option Exc) (hb : bad ∈ steps)
    (hbad : ∀ w', w'.store = w.store → w'.allPorts = w.allPorts → (bad w').2.isSome = true) :
    (runSteps w steps).2.isSome = true := by
  induction steps generalizing w with
  | nil => cases hb
  | cons s r ih =>
    rw [runSteps]
    cases hs : s w with
    | mk w' oe =>
      cases oe with
      | some e => rfl
      | none =>
        simp only
        rcases List.mem_cons.mp hb with rfl | hb'
        · have := hbad w rfl rfl; rw [hs] at this; cases this
        · have hw' : w'.store = w.store ∧ w'.allPorts = w.allPorts := by
            have := hst s (by simp) w; rw [hs] at this; exact this
          exact ih w' (fun s' hs' => hst s' (by simp [hs'])) hb'
            (fun w'' h1 h2 => hbad w'' (h1.trans hw'.1) (h2.trans hw'.2))

theorem setSelector_store (w : World) (s : Selector) : (w.setSelector s).store = w.store := rfl

theorem steps_stable (w : World) (parent : Bool) : ∀ s ∈ finalStep w parent, StoreStable s := by
  intro s hs
  simp only [finalStep, List.mem_append, List.mem_map, List.mem_cons, List.not_mem_nil,
    or_false] at hs
  rcases hs with ((⟨p, _, rfl⟩ | ⟨p, _, rfl⟩) | ⟨p, _, rfl⟩) | (rfl | rfl)
  · intro w'
    simp only
    split
    · exact ⟨rfl, rfl⟩
    · split
      · exact ⟨rfl, rfl⟩
      · split <;> exact ⟨rfl, rfl⟩
  · intro w'; exact ⟨rfl, rfl⟩
  · intro w'; exact ⟨rfl, rfl⟩
  · intro w'; exact ⟨rfl, rfl⟩
  · intro w'; exact ⟨rfl, rfl⟩

/-- **detection (boundary)**: if a single event of an exposed, non-multi-client port is left
    unbound on the boundary object the shell checks for it (the component's own port for STS, the
    boundary port for MTS), final construction does not return normally -/
theorem detect_unbound_boundary (w : World) (parent : Bool) (p : CppPortItf)
    (hp : p ∈ w.ir.provides.filter (!·.isMc) ∨ p ∈ w.ir.requires)
    (e : Event) (he : e ∈ p.dzn.itf.events)
    (hun : w.get ⟨(if p.dzn.sem = .sts then RObj.enc p.name else .bnd p.target), evDirOf e, e.name⟩ = none) :
    (finalConstruct w parent).2.isSome = true := by
  unfold finalConstruct
  let objOf := fun (p : CppPortItf) => if p.dzn.sem = .sts then RObj.enc p.name else .bnd p.target
  let chk : CppPortItf → World → World × Option Exc :=
    fun p w => (w, checkPort w (objOf p) p.dzn.itf (pathOf w p.name))
  apply runSteps_some _ w (steps_stable w parent) (chk p)
  · simp only [finalStep, List.mem_append, List.mem_map, List.mem_cons]
    rcases hp with hp | hp
    · exact Or.inl (Or.inl (Or.inr ⟨p, hp, rfl⟩))
    · exact Or.inl (Or.inr ⟨p, hp, rfl⟩)
  · intro w' hw' _
    show (checkPort w' (objOf p) p.dzn.itf (pathOf w' p.name)).isSome = true
    cases hc : checkPort w' (objOf p) p.dzn.itf (pathOf w' p.name) with
    | some x => rfl
    | none =>
      have := (checkPort_none_iff w' _ _ _).mp hc e he
      have hg : w'.get ⟨objOf p, evDirOf e, e.name⟩ = w.get ⟨objOf p, evDirOf e, e.name⟩ := by
        simp only [World.get, hw']
      rw [hg, hun] at this
      cases this

/-- **detection (component)**: an unbound event on any of the wrapped component's own ports
    (injected ones included) is detected as well -/
theorem detect_unbound_component (w : World) (parent : Bool) (p : Port) (itf : InterfaceD)
    (hp : (p, itf) ∈ w.allPorts) (e : Event) (he : e ∈ itf.events)
    (hun : w.get ⟨.enc p.name, evDirOf e, e.name⟩ = none) :
    (finalConstruct w parent).2.isSome = true := by
  unfold finalConstruct
  let encStep : World → World × Option Exc := fun (w : World) =>
    (w, w.allPorts.findSome? (fun (p, itf) => checkPort w (.enc p.name) itf (pathOf w p.name)))
  apply runSteps_some _ w (steps_stable w parent) encStep
  · simp [finalStep, encStep]
  · intro w' hw' hap
    show (w'.allPorts.findSome? _).isSome = true
    rw [List.findSome?_isSome_iff]
    refine ⟨(p, itf), by rw [hap]; exact hp, ?_⟩
    show (checkPort w' (.enc p.name) itf (pathOf w' p.name)).isSome = true
    cases hc : checkPort w' (.enc p.name) itf (pathOf w' p.name) with
    | some x => rfl
    | none =>
      have := (checkPort_none_iff w' _ _ _).mp hc e he
      have hg : w'.get ⟨.enc p.name, evDirOf e, e.name⟩ = w.get ⟨.enc p.name, evDirOf e, e.name⟩ := by
        simp only [World.get, hw']
      rw [hg, hun] at this
      cases this

/-- **locked**: once a multi-client selector is final constructed no client can be registered,
    while identifiers registered before still resolve -/
theorem locked_after_success (w : World) (p : CppPortItf) (sel : Selector)
    (hs : w.selector p.target = some sel) (hf : sel.finalConstructed = true) (id : Str) (hid : id ≠ []) :
    (id ∉ sel.clients → (registerClient w p id).2 =
        some (.runtimeError (L "Can not allocate a ClientPort entry when final constructed."))) ∧
    (id ∈ sel.clients → registerClient w p id = (w, none)) := by
  have he : id.isEmpty = false := by cases id <;> simp_all
  constructor
  · intro hn
    simp [registerClient, hs, he, hn, hf]
  · intro hm
    simp [registerClient, hs, he, hm]

/-- **all bound**: when every check passes, FinalConstruct returns normally -/
theorem all_bound_ok (steps : List (World → World × Option Exc)) (w : World)
    (h : ∀ s ∈ steps, ∀ w', (s w').2 = none) : (runSteps w steps).2 = none := by
  induction steps generalizing w with
  | nil => rfl
  | cons s r ih =>
    rw [runSteps]
    have := h s (by simp) w
    cases hs : s w with
    | mk w' oe =>
      rw [hs] at this
      simp only at this
      subst this
      exact ih w' (fun s' hs' => h s' (by simp [hs']))

end C10
