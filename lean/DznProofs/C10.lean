/-
  C10 — Final construction detects every unbound boundary event.
-/
import DznModel
open Py Scoping Ast PortSel Shell Sem

namespace C10

/-- `check_bindings` of a port succeeds exactly when every event of its interface, in both
    directions, has a handler -/
theorem checkPort_none_iff (w : World) (obj : RObj) (itf : InterfaceD) (path : Str) :
    checkPort w obj itf path = none ↔
      ∀ e ∈ itf.events, (w.get ⟨obj, evDirOf e, e.name⟩).isSome = true := by
  unfold checkPort
  constructor
  · intro h e he
    cases hf : (eventsOf itf .in_ ++ eventsOf itf .out).find? (fun e => (w.get ⟨obj, evDirOf e, e.name⟩).isNone) with
    | some x => rw [hf] at h; cases h
    | none =>
      have hall := List.find?_eq_none.mp hf e (by
        simp only [eventsOf, List.mem_append, List.mem_filter]
        cases hd : e.dir <;> simp [he, hd])
      cases hg : w.get ⟨obj, evDirOf e, e.name⟩ <;> simp_all
  · intro h
    have : (eventsOf itf .in_ ++ eventsOf itf .out).find? (fun e => (w.get ⟨obj, evDirOf e, e.name⟩).isNone) = none := by
      apply List.find?_eq_none.mpr
      intro e he
      have hm : e ∈ itf.events := by
        simp only [eventsOf, List.mem_append, List.mem_filter] at he
        rcases he with h1 | h1 <;> exact h1.1
      have := h e hm
      cases hg : w.get ⟨obj, evDirOf e, e.name⟩ <;> simp_all
    rw [this]

/-- a binding error names the port's path and the unbound event -/
theorem checkPort_error (w : World) (obj : RObj) (itf : InterfaceD) (path : Str) (x : Exc)
    (h : checkPort w obj itf path = some x) :
    ∃ e ∈ itf.events, (w.get ⟨obj, evDirOf e, e.name⟩) = none ∧
      x = .bindingError (path ++ L "." ++ (evDirOf e).str ++ L "." ++ e.name) := by
  unfold checkPort at h
  cases hf : (eventsOf itf .in_ ++ eventsOf itf .out).find? (fun e => (w.get ⟨obj, evDirOf e, e.name⟩).isNone) with
  | none => rw [hf] at h; cases h
  | some e =>
    rw [hf] at h
    injection h with h
    have hm := List.mem_of_find?_eq_some hf
    have hp := List.find?_some hf
    refine ⟨e, ?_, ?_, h.symm⟩
    · simp only [eventsOf, List.mem_append, List.mem_filter] at hm
      rcases hm with h1 | h1 <;> exact h1.1
    · cases hg : w.get ⟨obj, evDirOf e, e.name⟩ <;> simp_all

/-- the steps of FinalConstruct never touch the handler store -/
def StoreStable (s : World → World × Option Exc) : Prop :=
  ∀ w, (s w).1.store = w.store ∧ (s w).1.allPorts = w.allPorts

theorem runSteps_some (steps : List (World → World × Option Exc)) (w : World)
    (hst : ∀ s ∈ steps, StoreStable s)
    (bad : World → World × Option Exc) (hb : bad ∈ steps)
    (hbad : ∀ w', w'.store = w.store → w'.allPorts = w.allPorts → (bad w').2.isSome = true) :
    (runSteps w steps).2.isSome = true := by
  induction steps generalizing w with
  | nil => cases hb
  | cons s r ih =>
    rw [runSteps]
    cases hs : s w with
    | mk w' oe =>
      cases oe with
      | some e => rfl
      | none =>
        simp only
        rcases List.mem_cons.mp hb with rfl | hb'
        · have := hbad w rfl rfl; rw [hs] at this; cases this
        · have hw' : w'.store = w.store ∧ w'.allPorts = w.allPorts := by
            have := hst s (by simp) w; rw [hs] at this; exact this
          exact ih w' (fun s' hs' => hst s' (by simp [hs'])) hb'
            (fun w'' h1 h2 => hbad w'' (h1.trans hw'.1) (h2.trans hw'.2))

theorem setSelector_store (w : World) (s : Selector) : (w.setSelector s).store = w.store := rfl

theorem mcFinalStep_stable (p : CppPortItf) : StoreStable (mcFinalStep p) := by
  intro w'
  unfold mcFinalStep
  split
  · exact ⟨rfl, rfl⟩
  · split
    · exact ⟨rfl, rfl⟩
    · split <;> exact ⟨rfl, rfl⟩

/-- whatever statement the generated body contains, its step keeps the handler store -/
theorem stmtStep_stable (ir : ShellIR) (parent : Bool) (s : Str) (f : World → World × Option Exc)
    (h : stmtStep ir parent s = some f) : StoreStable f := by
  unfold stmtStep at h
  split at h
  · injection h with h; subst h; intro w'; exact ⟨rfl, rfl⟩
  · split at h
    · injection h with h; subst h; intro w'; exact ⟨rfl, rfl⟩
    · split at h
      · injection h with h; subst h; exact mcFinalStep_stable _
      · split at h
        · injection h with h; subst h; intro w'; exact ⟨rfl, rfl⟩
        · cases h

theorem steps_stable (w : World) (parent : Bool) : ∀ s ∈ finalStep w parent, StoreStable s := by
  intro s hs
  unfold finalStep at hs
  obtain ⟨st, _, hst⟩ := List.mem_filterMap.mp hs
  exact stmtStep_stable _ _ _ _ hst

/-- **detection (boundary)**: if the generated body contains the statement that checks the bindings
    of an exposed, non-multi-client port, and a single event of that port is left unbound on the
    object the statement addresses (the component's own port for STS, the boundary member for MTS),
    final construction does not return normally -/
theorem detect_unbound_boundary (w : World) (parent : Bool) (p : CppPortItf)
    (hstmt : ∃ s ∈ w.ir.finalConstruct, stmtStep w.ir parent s = some (checkStep p))
    (e : Event) (he : e ∈ p.dzn.itf.events)
    (hun : w.get ⟨boundaryObj p, evDirOf e, e.name⟩ = none) :
    (finalConstruct w parent).2.isSome = true := by
  unfold finalConstruct
  apply runSteps_some _ w (steps_stable w parent) (checkStep p)
  · obtain ⟨s, hs, hst⟩ := hstmt
    exact List.mem_filterMap.mpr ⟨s, hs, hst⟩
  · intro w' hw' _
    show (checkPort w' (boundaryObj p) p.dzn.itf (pathOf w' p.name)).isSome = true
    cases hc : checkPort w' (boundaryObj p) p.dzn.itf (pathOf w' p.name) with
    | some x => rfl
    | none =>
      have := (checkPort_none_iff w' _ _ _).mp hc e he
      have hg : w'.get ⟨boundaryObj p, evDirOf e, e.name⟩ = w.get ⟨boundaryObj p, evDirOf e, e.name⟩ := by
        simp only [World.get, hw']
      rw [hg, hun] at this
      cases this

/-- **detection (component)**: if the body contains `m_encapsulee.check_bindings();`, an unbound
    event on any of the wrapped component's own ports (injected ones included) is detected as well -/
theorem detect_unbound_component (w : World) (parent : Bool) (p : Port) (itf : InterfaceD)
    (hstmt : L "m_encapsulee.check_bindings();" ∈ w.ir.finalConstruct)
    (hp : (p, itf) ∈ w.allPorts) (e : Event) (he : e ∈ itf.events)
    (hun : w.get ⟨.enc p.name, evDirOf e, e.name⟩ = none) :
    (finalConstruct w parent).2.isSome = true := by
  unfold finalConstruct
  apply runSteps_some _ w (steps_stable w parent) encCheckStep
  · exact List.mem_filterMap.mpr ⟨_, hstmt, by simp [stmtStep]⟩
  · intro w' hw' hap
    show (w'.allPorts.findSome? _).isSome = true
    rw [List.findSome?_isSome_iff]
    refine ⟨(p, itf), by rw [hap]; exact hp, ?_⟩
    show (checkPort w' (.enc p.name) itf (pathOf w' p.name)).isSome = true
    cases hc : checkPort w' (.enc p.name) itf (pathOf w' p.name) with
    | some x => rfl
    | none =>
      have := (checkPort_none_iff w' _ _ _).mp hc e he
      have hg : w'.get ⟨.enc p.name, evDirOf e, e.name⟩ = w.get ⟨.enc p.name, evDirOf e, e.name⟩ := by
        simp only [World.get, hw']
      rw [hg, hun] at this
      cases this

/-- **detection (client ports of a multi-client port)**: if the body contains
    `<selector>.FinalConstruct();` and some registered client port has an unbound event, final
    construction does not return normally either -/
theorem detect_unbound_client (w : World) (parent : Bool) (p : CppPortItf)
    (hstmt : ∃ s ∈ w.ir.finalConstruct, stmtStep w.ir parent s = some (mcFinalStep p))
    (hsel : ∀ w' : World, w'.store = w.store → ∃ sel, w'.selector p.target = some sel ∧
        (sel.finalConstructed = true ∨ ∃ id ∈ sortedIds sel.clients, ∃ e ∈ p.dzn.itf.events,
          w.get ⟨.client p.target id, evDirOf e, e.name⟩ = none)) :
    (finalConstruct w parent).2.isSome = true := by
  unfold finalConstruct
  apply runSteps_some _ w (steps_stable w parent) (mcFinalStep p)
  · obtain ⟨s, hs, hst⟩ := hstmt
    exact List.mem_filterMap.mpr ⟨s, hs, hst⟩
  · intro w' hw' _
    obtain ⟨sel, hs, hcase⟩ := hsel w' hw'
    unfold mcFinalStep
    simp only [hs]
    rcases hcase with hfc | ⟨id, hid, e, he, hun⟩
    · simp [hfc]
    · by_cases hfc : sel.finalConstructed = true
      · simp [hfc]
      · simp only [hfc, Bool.false_eq_true, if_false]
        have : ((sortedIds sel.clients).findSome? (fun id =>
            checkPort w' (.client p.target id) p.dzn.itf (L "<external>.arbiter" ++ capOf p.name))).isSome = true := by
          rw [List.findSome?_isSome_iff]
          refine ⟨id, hid, ?_⟩
          cases hc : checkPort w' (.client p.target id) p.dzn.itf (L "<external>.arbiter" ++ capOf p.name) with
          | some x => rfl
          | none =>
            have := (checkPort_none_iff w' _ _ _).mp hc e he
            have hg : w'.get ⟨.client p.target id, evDirOf e, e.name⟩ = w.get ⟨.client p.target id, evDirOf e, e.name⟩ := by
              simp only [World.get, hw']
            rw [hg, hun] at this
            cases this
        cases hf : (sortedIds sel.clients).findSome? (fun id =>
            checkPort w' (.client p.target id) p.dzn.itf (L "<external>.arbiter" ++ capOf p.name)) with
        | some x => rfl
        | none => rw [hf] at this; cases this

/-- **locked**: once a multi-client selector is final constructed no client can be registered,
    while identifiers registered before still resolve -/
theorem locked_after_success (w : World) (p : CppPortItf) (sel : Selector)
    (hs : w.selector p.target = some sel) (hf : sel.finalConstructed = true) (id : Str) (hid : id ≠ []) :
    (id ∉ sel.clients → (registerClient w p id).2 =
        some (.runtimeError (L "Can not allocate a ClientPort entry when final constructed."))) ∧
    (id ∈ sel.clients → registerClient w p id = (w, none)) := by
  have he : id.isEmpty = false := by cases id <;> simp_all
  constructor
  · intro hn
    simp [registerClient, hs, he, hn, hf]
  · intro hm
    simp [registerClient, hs, he, hm]

/-- **all bound**: when every check passes, FinalConstruct returns normally -/
theorem all_bound_ok (steps : List (World → World × Option Exc)) (w : World)
    (h : ∀ s ∈ steps, ∀ w', (s w').2 = none) : (runSteps w steps).2 = none := by
  induction steps generalizing w with
  | nil => rfl
  | cons s r ih =>
    rw [runSteps]
    have := h s (by simp) w
    cases hs : s w with
    | mk w' oe =>
      rw [hs] at this
      simp only at this
      subst this
      exact ih w' (fun s' hs' => h s' (by simp [hs']))

end C10
