/-
  C13 ("valid inputs always succeed") — a declarative validity predicate on (model, configuration)
  and the theorem that every valid input builds.
-/
import DznModel
import DznProofs.C13
import DznProofs.C13Invalid
import DznProofs.C07
open Py Text Scoping Ast AstView PortSel CppGen Support Shell

namespace C13

def exposed (p : Port) : Bool := p.dir = .provides || !p.injected

/-- what a valid (model, configuration) pair is — stated on the model and the configuration only:
    * the encapsulee name denotes exactly one declaration, a component or system, whose ports have
      (non-empty) names;
    * the port selection is accepted for the encapsulee's port names and gives every exposed port a
      semantics;
    * every port's written type denotes exactly one interface;
    * the multi-client settings (if any) are accepted for the provides port they name, that port
      exists, and it is configured MTS;
    * every event parameter of every exposed MTS port's interface denotes exactly one extern type;
    * the shell's name is not empty. -/
structure Valid (fc : FC) (cfg : Config) where
  enc : Decl
  found : findFqn fc cfg.encapsulee = [enc]
  kind : isComponentOrSystem enc = true
  names : ∀ p ∈ Decl.ports enc, p.name ≠ []
  sems : List (Str × Sem)
  selected : cfg.ports.matchAll (provNames enc) (reqNames enc) = .ok sems
  covered : ∀ p ∈ Decl.ports enc, exposed p = true → (sems.lookup p.name).isSome = true
  typed : ∀ p ∈ Decl.ports enc, (Spec.portInterface fc enc.parent.fqn p).isSome = true
  mcOk : ∀ p ∈ Decl.ports enc, p.dir = .provides → ∀ i, Spec.portInterface fc enc.parent.fqn p = some i →
      ∃ r, checkMulticlientCfg cfg.ports.multiclient p.name i fc = .ok r ∧
        (r.isSome = true → sems.lookup p.name = some .mts)
  mcPort : ∀ m, cfg.ports.multiclient = some m →
      ∃ p ∈ Decl.ports enc, p.dir = .provides ∧ p.name = m.portName
  formals : ∀ p ∈ Decl.ports enc, ∀ i, Spec.portInterface fc enc.parent.fqn p = some i →
      sems.lookup p.name = some .mts → ∀ ev ∈ i.events, ∀ f ∈ ev.formals, (Spec.formalType fc i f).isSome = true
  named : getBasename cfg.dezyneFilename ++ cfg.suffix ≠ []

/-! ### stage 1: the exposed ports -/

/-- what the fold has established about the accumulated descriptors -/
structure Acc (fc : FC) (cfg : Config) (scope : Ids) (sems : List (Str × Sem)) (ports : List Port)
    (acc : List DznPortItf × List DznPortItf) : Prop where
  mem : ∀ d ∈ acc.1 ++ acc.2, d.port ∈ ports
  itf : ∀ d ∈ acc.1 ++ acc.2, Spec.portInterface fc scope d.port = some d.itf
  sem : ∀ d ∈ acc.1 ++ acc.2, sems.lookup d.port.name = some d.sem
  mc1 : ∀ d ∈ acc.1, checkMulticlientCfg cfg.ports.multiclient d.port.name d.itf fc = .ok d.mc
  mc2 : ∀ d ∈ acc.2, d.mc = none
  dir1 : ∀ d ∈ acc.1, d.port.dir = .provides

theorem acc_snoc1 {fc cfg scope sems ports acc} (d : DznPortItf) (h : Acc fc cfg scope sems ports acc)
    (h1 : d.port ∈ ports) (h2 : Spec.portInterface fc scope d.port = some d.itf)
    (h3 : sems.lookup d.port.name = some d.sem)
    (h4 : checkMulticlientCfg cfg.ports.multiclient d.port.name d.itf fc = .ok d.mc)
    (h5 : d.port.dir = .provides) :
    Acc fc cfg scope sems ports (acc.1 ++ [d], acc.2) := by
  have key : ∀ x, x ∈ (acc.1 ++ [d]) ++ acc.2 → x ∈ acc.1 ++ acc.2 ∨ x = d := by
    intro x hx; simp only [List.mem_append, List.mem_singleton] at hx ⊢
    rcases hx with (hx | hx) | hx
    · exact Or.inl (Or.inl hx)
    · exact Or.inr hx
    · exact Or.inl (Or.inr hx)
  refine ⟨?_, ?_, ?_, ?_, h.mc2, ?_⟩
  · intro x hx; rcases key x hx with hx | rfl
    · exact h.mem x hx
    · exact h1
  · intro x hx; rcases key x hx with hx | rfl
    · exact h.itf x hx
    · exact h2
  · intro x hx; rcases key x hx with hx | rfl
    · exact h.sem x hx
    · exact h3
  · intro x hx
    rcases List.mem_append.mp hx with hx | hx
    · exact h.mc1 x hx
    · simp at hx; subst hx; exact h4
  · intro x hx
    rcases List.mem_append.mp hx with hx | hx
    · exact h.dir1 x hx
    · simp at hx; subst hx; exact h5

theorem acc_snoc2 {fc cfg scope sems ports acc} (d : DznPortItf) (h : Acc fc cfg scope sems ports acc)
    (h1 : d.port ∈ ports) (h2 : Spec.portInterface fc scope d.port = some d.itf)
    (h3 : sems.lookup d.port.name = some d.sem) (h4 : d.mc = none) :
    Acc fc cfg scope sems ports (acc.1, acc.2 ++ [d]) := by
  have key : ∀ x, x ∈ acc.1 ++ (acc.2 ++ [d]) → x ∈ acc.1 ++ acc.2 ∨ x = d := by
    intro x hx; simp only [List.mem_append, List.mem_singleton] at hx ⊢
    rcases hx with hx | hx | hx
    · exact Or.inl (Or.inl hx)
    · exact Or.inl (Or.inr hx)
    · exact Or.inr hx
  refine ⟨?_, ?_, ?_, h.mc1, ?_, h.dir1⟩
  · intro x hx; rcases key x hx with hx | rfl
    · exact h.mem x hx
    · exact h1
  · intro x hx; rcases key x hx with hx | rfl
    · exact h.itf x hx
    · exact h2
  · intro x hx; rcases key x hx with hx | rfl
    · exact h.sem x hx
    · exact h3
  · intro x hx
    rcases List.mem_append.mp hx with hx | hx
    · exact h.mc2 x hx
    · simp at hx; subst hx; exact h4

/-- one valid port: the step succeeds, keeps `Acc`, and a provides port ends up in the first list -/
theorem processPort_valid (fc cfg scope sems ports acc) (p : Port) (i : InterfaceD)
    (hacc : Acc fc cfg scope sems ports acc) (hp : p ∈ ports)
    (hi : Spec.portInterface fc scope p = some i)
    (hcov : exposed p = true → (sems.lookup p.name).isSome = true)
    (hmc : p.dir = .provides → ∃ r, checkMulticlientCfg cfg.ports.multiclient p.name i fc = .ok r ∧
        (r.isSome = true → sems.lookup p.name = some .mts)) :
    ∃ r, processPort cfg fc scope sems acc p = .ok r ∧ Acc fc cfg scope sems ports r ∧
      (∀ d ∈ acc.1, d ∈ r.1) ∧ (p.dir = .provides → ∃ d ∈ r.1, d.port = p) := by
  have hgs := (C07.port_type_is_the_denoted_interface fc scope p i).mpr hi
  by_cases hd : p.dir = .provides
  · obtain ⟨mc, hmc1, hmc2⟩ := hmc hd
    have hl := hcov (by simp [exposed, hd])
    obtain ⟨s, hs⟩ := Option.isSome_iff_exists.mp hl
    have hmk : mkDznPortItf p i s mc = .ok { port := p, itf := i, sem := s, mc := mc } := by
      unfold mkDznPortItf
      cases hm : mc.isSome with
      | false => simp
      | true =>
        have := hmc2 hm
        rw [hs] at this; injection this with this; subst this; simp
    have hstep : processPort cfg fc scope sems acc p =
        .ok (acc.1 ++ [{ port := p, itf := i, sem := s, mc := mc }], acc.2) := by
      unfold processPort
      simp only [hgs, bind, Except.bind, pure, Except.pure, hd, if_true, hmc1, hs, hmk]
    exact ⟨_, hstep, acc_snoc1 _ hacc hp hi hs hmc1 hd, fun d hd => by simp [hd],
      fun _ => ⟨{ port := p, itf := i, sem := s, mc := mc }, by simp, rfl⟩⟩
  · by_cases hinj : p.injected = true
    · have hstep : processPort cfg fc scope sems acc p = .ok acc := by
        unfold processPort
        simp only [hgs, bind, Except.bind, pure, Except.pure, hd, if_false, hinj, Bool.not_true, Bool.false_eq_true]
      exact ⟨acc, hstep, hacc, fun d hd => hd, fun h => absurd h hd⟩
    · have hinj' : p.injected = false := by simpa using hinj
      have hl := hcov (by simp [exposed, hinj'])
      obtain ⟨s, hs⟩ := Option.isSome_iff_exists.mp hl
      have hmk : mkDznPortItf p i s none = .ok { port := p, itf := i, sem := s, mc := none } := by
        simp [mkDznPortItf]
      have hstep : processPort cfg fc scope sems acc p =
          .ok (acc.1, acc.2 ++ [{ port := p, itf := i, sem := s, mc := none }]) := by
        unfold processPort
        simp only [hgs, bind, Except.bind, pure, Except.pure, hd, if_false, hinj', Bool.not_false, if_true, hs, hmk]
      exact ⟨_, hstep, acc_snoc2 _ hacc hp hi hs rfl, fun d hd => hd, fun h => absurd h hd⟩

theorem foldlM_valid (fc cfg scope sems) (ports l : List Port) (acc)
    (hacc : Acc fc cfg scope sems ports acc) (hl : ∀ p ∈ l, p ∈ ports)
    (hi : ∀ p ∈ l, (Spec.portInterface fc scope p).isSome = true)
    (hcov : ∀ p ∈ l, exposed p = true → (sems.lookup p.name).isSome = true)
    (hmc : ∀ p ∈ l, p.dir = .provides → ∀ i, Spec.portInterface fc scope p = some i →
        ∃ r, checkMulticlientCfg cfg.ports.multiclient p.name i fc = .ok r ∧
          (r.isSome = true → sems.lookup p.name = some .mts)) :
    ∃ r, l.foldlM (processPort cfg fc scope sems) acc = .ok r ∧ Acc fc cfg scope sems ports r ∧
      (∀ d ∈ acc.1, d ∈ r.1) ∧ (∀ p ∈ l, p.dir = .provides → ∃ d ∈ r.1, d.port = p) := by
  induction l generalizing acc with
  | nil => exact ⟨acc, rfl, hacc, fun d hd => hd, fun p hp => by simp at hp⟩
  | cons a t ih =>
    obtain ⟨i, hia⟩ := Option.isSome_iff_exists.mp (hi a (by simp))
    obtain ⟨r1, h1, hacc1, hkeep1, hprov1⟩ := processPort_valid fc cfg scope sems ports acc a i hacc
      (hl a (by simp)) hia (hcov a (by simp)) (fun hd => hmc a (by simp) hd i hia)
    obtain ⟨r, h2, hacc2, hkeep2, hprov2⟩ := ih r1 hacc1 (fun p hp => hl p (by simp [hp]))
      (fun p hp => hi p (by simp [hp])) (fun p hp => hcov p (by simp [hp]))
      (fun p hp => hmc p (by simp [hp]))
    refine ⟨r, ?_, hacc2, fun d hd => hkeep2 d (hkeep1 d hd), ?_⟩
    · rw [List.foldlM_cons]; simp only [bind, Except.bind, h1]; exact h2
    · intro p hp hd
      rcases List.mem_cons.mp hp with rfl | hp
      · obtain ⟨d, hd1, hd2⟩ := hprov1 hd
        exact ⟨d, hkeep2 d hd1, hd2⟩
      · exact hprov2 p hp hd

theorem checkMc_ok_matching (m : MultiClientCfg) (pn itf fc r)
    (h : checkMulticlientCfg (some m) pn itf fc = .ok r) (hpn : pn = m.portName) : r.isSome = true := by
  unfold checkMulticlientCfg at h
  simp only [hpn, ne_eq, not_true_eq_false, if_false] at h
  repeat (split at h <;> try (cases h; done))
  all_goals (try (injection h with h; subst h; rfl))

/-- stage 1 for a valid input -/
theorem elements_valid (fc cfg) (v : Valid fc cfg) :
    ∃ de, createDznElements cfg fc v.enc = .ok de ∧
      Acc fc cfg v.enc.parent.fqn v.sems (Decl.ports v.enc) (de.provides, de.requires) := by
  obtain ⟨r, hr, hacc, _, hprov⟩ := foldlM_valid fc cfg v.enc.parent.fqn v.sems (Decl.ports v.enc)
    (Decl.ports v.enc) ([], []) ⟨by simp, by simp, by simp, by simp, by simp, by simp⟩ (fun _ hp => hp) v.typed v.covered v.mcOk
  have hsel := v.selected
  unfold provNames reqNames at hsel
  unfold createDznElements
  simp only [v.kind, Bool.not_true, Bool.false_eq_true, if_false, bind, Except.bind, hsel, hr, pure, Except.pure]
  have hcond : (cfg.ports.multiclient.isSome && !(r.1.any (·.mc.isSome))) = false := by
    cases hm : cfg.ports.multiclient with
    | none => rfl
    | some m =>
      obtain ⟨p, hp, hd, hn⟩ := v.mcPort m hm
      obtain ⟨d, hd1, hd2⟩ := hprov p hp hd
      have hc := hacc.mc1 d hd1
      rw [hm] at hc
      have := checkMc_ok_matching m _ _ _ _ hc (by rw [hd2]; exact hn)
      have hany : r.1.any (·.mc.isSome) = true := List.any_eq_true.mpr ⟨d, hd1, this⟩
      simp [hany]
  simp only [hcond, Bool.false_eq_true, if_false]
  exact ⟨_, rfl, hacc⟩

/-! ### stage 2: C++ port descriptors, helper methods, constructor -/

theorem mapM_ok_of {α β} (f : α → R β) (l : List α) (h : ∀ a ∈ l, ∃ b, f a = .ok b) :
    ∃ bs, l.mapM f = .ok bs := by
  induction l with
  | nil => exact ⟨[], rfl⟩
  | cons a t ih =>
    obtain ⟨b, hb⟩ := h a (by simp)
    obtain ⟨bs, hbs⟩ := ih (fun x hx => h x (by simp [hx]))
    exact ⟨b :: bs, by rw [List.mapM_cons]; simp [bind, Except.bind, hb, hbs, pure, Except.pure]⟩

theorem mapM_ok_inv {α β} (f : α → R β) (g : β → α) (l : List α) (h : ∀ a ∈ l, ∃ b, f a = .ok b ∧ g b = a) :
    ∃ bs, l.mapM f = .ok bs ∧ bs.map g = l := by
  induction l with
  | nil => exact ⟨[], rfl, rfl⟩
  | cons a t ih =>
    obtain ⟨b, hb, hg⟩ := h a (by simp)
    obtain ⟨bs, hbs, hgs⟩ := ih (fun x hx => h x (by simp [hx]))
    exact ⟨b :: bs, by rw [List.mapM_cons]; simp [bind, Except.bind, hb, hbs, pure, Except.pure], by simp [hg, hgs]⟩

theorem createCppPortItf_ok (d : DznPortItf) (sn : Str) (sfns : Ids) (h : d.port.name ≠ []) :
    ∃ cp, createCppPortItf d sn sfns = .ok cp ∧ cp.dzn = d := by
  unfold createCppPortItf
  cases hn : d.port.name with
  | nil => exact absurd hn h
  | cons c cs =>
    simp only [capFirst, bind, Except.bind, pure, Except.pure]
    split <;> exact ⟨_, rfl, rfl⟩

/-- every event parameter of the interface denotes exactly one extern type -/
def AllTyped (fc : FC) (itf : InterfaceD) : Prop :=
  ∀ ev ∈ itf.events, ∀ f ∈ ev.formals, (Spec.formalType fc itf f).isSome = true

theorem lambdaParams_ok (fc itf) (ev : Event) (refs) (h : ∀ f ∈ ev.formals, (Spec.formalType fc itf f).isSome = true) :
    ∃ ps, lambdaParamsOf fc itf ev refs = .ok ps := by
  unfold lambdaParamsOf
  apply mapM_ok_of
  intro f hf
  obtain ⟨v, hv⟩ := Option.isSome_iff_exists.mp (h f hf)
  have := (C07.formal_type_is_the_denoted_extern fc itf f v).mpr hv
  simp only [bind, Except.bind, this, pure, Except.pure]; exact ⟨_, rfl⟩

theorem rerouteIn_ok (fc) (p : CppPortItf) (h : AllTyped fc p.dzn.itf) : ∃ r, rerouteInEvents fc p = .ok r := by
  unfold rerouteInEvents
  apply mapM_ok_of
  intro ev hev
  obtain ⟨ps, hps⟩ := lambdaParams_ok fc p.dzn.itf ev true (h ev (by first | (unfold inEvents at hev; exact (List.mem_filter.mp hev).1) | (unfold outEvents at hev; exact (List.mem_filter.mp hev).1)))
  simp only [bind, Except.bind, hps, pure, Except.pure]; exact ⟨_, rfl⟩

theorem rerouteOut_ok (fc) (p : CppPortItf) (h : AllTyped fc p.dzn.itf) : ∃ r, rerouteOutEvents fc p = .ok r := by
  unfold rerouteOutEvents
  apply mapM_ok_of
  intro ev hev
  obtain ⟨ps, hps⟩ := lambdaParams_ok fc p.dzn.itf ev false (h ev (by first | (unfold inEvents at hev; exact (List.mem_filter.mp hev).1) | (unfold outEvents at hev; exact (List.mem_filter.mp hev).1)))
  simp only [bind, Except.bind, hps, pure, Except.pure]; exact ⟨_, rfl⟩

theorem rerouteMcOut_ok (fc) (p : CppPortItf) (h : AllTyped fc p.dzn.itf) : ∃ r, rerouteMcOutEvents fc p = .ok r := by
  unfold rerouteMcOutEvents
  apply mapM_ok_of
  intro ev hev
  obtain ⟨ps, hps⟩ := lambdaParams_ok fc p.dzn.itf ev false (h ev (by first | (unfold inEvents at hev; exact (List.mem_filter.mp hev).1) | (unfold outEvents at hev; exact (List.mem_filter.mp hev).1)))
  simp only [bind, Except.bind, hps, pure, Except.pure]; exact ⟨_, rfl⟩

theorem initializePortAssigns_ok (fc) (p : CppPortItf) (mc : McFixture) (h : AllTyped fc p.dzn.itf)
    (hc : mc.claimEvent ∈ p.dzn.itf.events) (hr : mc.releaseEvent ∈ p.dzn.itf.events) :
    ∃ r, initializePortAssigns fc p mc = .ok r := by
  unfold initializePortAssigns
  apply mapM_ok_of
  intro ev hev
  split
  · obtain ⟨ps, hps⟩ := lambdaParams_ok fc p.dzn.itf mc.claimEvent true (h _ hc)
    simp only [bind, Except.bind, hps, pure, Except.pure]; exact ⟨_, rfl⟩
  · split
    · obtain ⟨ps, hps⟩ := lambdaParams_ok fc p.dzn.itf mc.releaseEvent true (h _ hr)
      simp only [bind, Except.bind, hps, pure, Except.pure]; exact ⟨_, rfl⟩
    · exact ⟨_, rfl⟩

theorem checkMc_events (c pn itf fc fx) (h : checkMulticlientCfg c pn itf fc = .ok (some fx)) :
    fx.claimEvent ∈ itf.events ∧ fx.releaseEvent ∈ itf.events := by
  unfold checkMulticlientCfg at h
  split at h
  · cases h
  split at h
  · cases h
  split at h
  · cases h
  rename_i claim _ hclaim
  split at h
  · cases h
  · split at h
    · cases h
    split at h
    · cases h
    split at h
    · cases h
    rename_i release _ hrel
    split at h
    · cases h
    · injection h with h; injection h with h; subst h
      have h1 := List.mem_filter.mp (hclaim ▸ (List.mem_cons_self : claim ∈ claim :: _))
      have h2 := List.mem_filter.mp (hrel ▸ (List.mem_cons_self : release ∈ release :: _))
      exact ⟨h1.1, h2.1⟩
  · cases h

theorem forIn_ok {α β} (l : List α) (f : α → β → R (ForInStep β)) (b : β)
    (h : ∀ a ∈ l, ∀ b, ∃ b', f a b = .ok (.yield b')) : ∃ r, forIn l b f = .ok r := by
  induction l generalizing b with
  | nil => exact ⟨b, rfl⟩
  | cons a t ih =>
    obtain ⟨b', hb⟩ := h a (by simp) b
    obtain ⟨r, hr⟩ := ih b' (fun x hx => h x (by simp [hx]))
    exact ⟨r, by rw [List.forIn_cons]; simp only [bind, Except.bind, hb]; exact hr⟩

theorem exists_ok_bind {α β} {x : R α} {k : α → R β} (hx : ∃ a, x = .ok a) (hk : ∀ a, ∃ b, k a = .ok b) :
    ∃ b, (x >>= k) = .ok b := by
  obtain ⟨a, ha⟩ := hx
  obtain ⟨b, hb⟩ := hk a
  exact ⟨b, by simp [bind, Except.bind, ha, hb]⟩

theorem createHelpers_ok (fc) (ps : List CppPortItf) (sfns sn)
    (h : ∀ p ∈ ps, ∀ mc, p.dzn.mc = some mc →
      AllTyped fc p.dzn.itf ∧ mc.claimEvent ∈ p.dzn.itf.events ∧ mc.releaseEvent ∈ p.dzn.itf.events) :
    ∃ r, createHelpers fc ps sfns sn = .ok r := by
  unfold createHelpers
  apply exists_ok_bind
  · apply forIn_ok
    intro p hp st
    cases hmc : p.dzn.mc with
    | none => simp only [pure, Except.pure]; exact ⟨_, rfl⟩
    | some mc =>
      obtain ⟨h1, h2, h3⟩ := h p hp mc hmc
      obtain ⟨as, has⟩ := initializePortAssigns_ok fc p mc h1 h2 h3
      simp only [bind, Except.bind, has, pure, Except.pure]
      exact ⟨_, rfl⟩
  · intro a; exact ⟨_, rfl⟩

theorem createConstructor_ok (fc sn fac) (pp rp : List CppPortItf) (sfns)
    (h : ∀ p ∈ pp ++ rp, p.dzn.sem = .mts → AllTyped fc p.dzn.itf) :
    ∃ r, createConstructor fc sn fac pp rp sfns = .ok r := by
  have hpp : ∀ p ∈ mtsPorts pp, AllTyped fc p.dzn.itf := by
    intro p hp
    have := List.mem_filter.mp hp
    exact h p (by simp [this.1]) (by simpa using this.2)
  have hrp : ∀ p ∈ mtsPorts rp, AllTyped fc p.dzn.itf := by
    intro p hp
    have := List.mem_filter.mp hp
    exact h p (by simp [this.1]) (by simpa using this.2)
  unfold createConstructor
  dsimp only
  split <;> dsimp only
  all_goals
    apply exists_ok_bind
    · exact mapM_ok_of _ _ (fun p hp => rerouteIn_ok fc p (hpp p (List.mem_filter.mp hp).1))
    intro _
    apply exists_ok_bind
    · exact mapM_ok_of _ _ (fun p hp => rerouteOut_ok fc p (hrp p hp))
    intro _
    apply exists_ok_bind
    · exact mapM_ok_of _ _ (fun p hp => rerouteIn_ok fc p (hpp p (List.mem_filter.mp hp).1))
    intro _
    apply exists_ok_bind
    · exact mapM_ok_of _ _ (fun p hp => rerouteMcOut_ok fc p (hpp p (List.mem_filter.mp hp).1))
    intro _
    exact ⟨_, rfl⟩

/-- **C13 (valid inputs always succeed)** -/
theorem valid_succeeds (fc : FC) (cfg : Config) (v : Valid fc cfg) : ∃ r, build fc cfg = .ok r := by
  obtain ⟨de, hde, hacc⟩ := elements_valid fc cfg v
  -- facts about every exposed port descriptor
  have hname : ∀ d ∈ de.provides ++ de.requires, d.port.name ≠ [] :=
    fun d hd => v.names _ (hacc.mem d hd)
  have htyped : ∀ d ∈ de.provides ++ de.requires, d.sem = .mts → AllTyped fc d.itf := by
    intro d hd hs
    have := hacc.sem d hd
    rw [hs] at this
    exact v.formals d.port (hacc.mem d hd) d.itf (hacc.itf d hd) this
  have hmcsem : ∀ d ∈ de.provides, d.mc.isSome = true → d.sem = .mts := by
    intro d hd hs
    obtain ⟨r, hr1, hr2⟩ := v.mcOk d.port (hacc.mem d (by simp [hd])) (hacc.dir1 d hd) d.itf
      (hacc.itf d (by simp [hd]))
    have hc := hacc.mc1 d hd
    rw [hr1] at hc; injection hc with hc; subst hc
    have h1 := hr2 hs
    have h2 := hacc.sem d (by simp [hd])
    rw [h1] at h2; injection h2 with h2; exact h2.symm
  have hmcev : ∀ d ∈ de.provides, ∀ mc, d.mc = some mc →
      mc.claimEvent ∈ d.itf.events ∧ mc.releaseEvent ∈ d.itf.events := by
    intro d hd mc hmc
    have hc := hacc.mc1 d hd
    rw [hmc] at hc
    exact checkMc_events _ _ _ _ _ hc
  -- the shell part
  suffices hs : ∃ s, buildShell fc cfg = .ok s by
    obtain ⟨s, hs⟩ := hs
    unfold build; simp only [hs, bind, Except.bind, pure, Except.pure]; exact ⟨_, rfl⟩
  obtain ⟨pp, hpp, hppd⟩ := mapM_ok_inv
    (fun d => createCppPortItf d (getBasename cfg.dezyneFilename ++ cfg.suffix) (distillateNs cfg.pfx).1)
    (·.dzn) de.provides (fun d hd => createCppPortItf_ok d _ _ (hname d (by simp [hd])))
  obtain ⟨rp, hrp, hrpd⟩ := mapM_ok_inv
    (fun d => createCppPortItf d (getBasename cfg.dezyneFilename ++ cfg.suffix) (distillateNs cfg.pfx).1)
    (·.dzn) de.requires (fun d hd => createCppPortItf_ok d _ _ (hname d (by simp [hd])))
  have hmem_pp : ∀ p ∈ pp, p.dzn ∈ de.provides := by
    intro p hp; rw [← hppd]; exact List.mem_map.mpr ⟨p, hp, rfl⟩
  have hmem_rp : ∀ p ∈ rp, p.dzn ∈ de.requires := by
    intro p hp; rw [← hrpd]; exact List.mem_map.mpr ⟨p, hp, rfl⟩
  obtain ⟨hl, hhl⟩ := createHelpers_ok fc pp (distillateNs cfg.pfx).1 (getBasename cfg.dezyneFilename ++ cfg.suffix)
    (fun p hp mc hmc => by
      have hd := hmem_pp p hp
      have hsem := hmcsem p.dzn hd (by simp [hmc])
      exact ⟨htyped p.dzn (by simp [hd]) hsem, hmcev p.dzn hd mc hmc⟩)
  obtain ⟨ca, hca⟩ := createConstructor_ok fc (getBasename cfg.dezyneFilename ++ cfg.suffix)
    (createFacilities cfg.origin (getBasename cfg.dezyneFilename ++ cfg.suffix)) pp rp (distillateNs cfg.pfx).1
    (fun p hp hs => by
      rcases List.mem_append.mp hp with hp | hp
      · exact htyped p.dzn (by simp [hmem_pp p hp]) hs
      · exact htyped p.dzn (by simp [hmem_rp p hp]) hs)
  have hne : (getBasename cfg.dezyneFilename ++ cfg.suffix).isEmpty = false := by
    cases h : getBasename cfg.dezyneFilename ++ cfg.suffix with
    | nil => exact absurd h v.named
    | cons _ _ => rfl
  unfold buildShell
  simp only [v.found, getSingle, List.isEmpty_cons, Bool.false_eq_true, if_false, bind, Except.bind, hde, hne,
    hpp, hrp, hhl, hca, pure, Except.pure]
  exact ⟨_, rfl⟩

/-! ### the predicate is satisfiable: a component in namespace `N` with one provides port typed by
    an interface whose in-event has an extern-typed parameter; everything MTS -/

def exItf : InterfaceD :=
  { fqn := [L "N", L "I"], parent := { scopes := [[L "N"]] }, trail := { scopes := [[L "N"], [L "I"]] }, name := [L "I"],
    types := [],
    events := [{ name := L "go", replyType := [L "void"], dir := .in_,
                 formals := [{ name := L "a", typeName := [L "T"], dir := .in_ }] }] }

def exPort : Port := { name := L "p", typeName := [L "I"], dir := .provides, formals := [], injected := false }

def exComp : ComponentD :=
  { fqn := [L "N", L "C"], parent := { scopes := [[L "N"]] }, name := [L "C"], ports := [exPort] }

def exFc : FC :=
  { components := [exComp],
    externs := [{ fqn := [L "N", L "T"], parent := { scopes := [[L "N"]] }, name := [L "T"], value := L "int" }],
    interfaces := [exItf] }

def exCfg : Config :=
  { dezyneFilename := L "M.dzn", suffix := L "AdvShell", encapsulee := [L "N", L "C"],
    ports := { provides := { sts := .wild .none, mts := .wild .all },
               requires := { sts := .wild .none, mts := .wild .all } },
    origin := .create, copyright := .str (L "c") }

theorem exPortItf : Spec.portInterface exFc [L "N"] exPort = some exItf := by rfl

def exValid : Valid exFc exCfg where
  enc := .component exComp
  found := by rw [C14.find_fqn_spec]; rfl
  kind := rfl
  names := by
    intro p hp
    have : p = exPort := by simpa [Decl.ports, exComp] using hp
    subst this; simp [exPort]
  sems := [(L "p", .mts)]
  selected := by rfl
  covered := by
    intro p hp _
    have : p = exPort := by simpa [Decl.ports, exComp] using hp
    subst this; rfl
  typed := by
    intro p hp
    have : p = exPort := by simpa [Decl.ports, exComp] using hp
    subst this
    show (Spec.portInterface exFc [L "N"] exPort).isSome = true
    rw [exPortItf]; rfl
  mcOk := by
    intro p hp hd i hi
    exact ⟨none, rfl, by simp⟩
  mcPort := by intro m hm; cases hm
  formals := by
    intro p hp i hi _ ev hev f hf
    have hp' : p = exPort := by simpa [Decl.ports, exComp] using hp
    subst hp'
    have : i = exItf := by
      have h3 : (Decl.component exComp).parent.fqn = [L "N"] := by rfl
      rw [h3, exPortItf] at hi; injection hi with hi; exact hi.symm
    subst this
    simp only [exItf, List.mem_singleton] at hev
    subst hev
    simp only [List.mem_singleton] at hf
    subst hf
    rfl
  named := by
    intro h
    have : (getBasename exCfg.dezyneFilename ++ exCfg.suffix).length = 9 := by rfl
    rw [h] at this; simp at this

example : ∃ r, build exFc exCfg = .ok r := valid_succeeds exFc exCfg exValid

end C13
