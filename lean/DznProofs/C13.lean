/-
  C13 — A build either returns a complete result or fails with a diagnosed error. (property theorems)
  The model carries Python's failure modes (`PyErr.internal`, `PyErr.deliberate`), so "never an
  internal error" is not true by typing: every lookup, every `[0]`, every dict access of the build
  pipeline is a point where the model could produce one, and the theorem walks all of them.
  "Never hangs" is the totality of `build` (structural recursion, accepted by Lean's termination
  checker with no fuel argument anywhere in the build pipeline).
-/
import DznModel
import DznProofs.C06
open Py Text Scoping Ast AstView PortSel CppGen Support Shell

namespace C13

/-- the library's own error types -/
def LibOnly (e : PyErr) : Prop := ∃ l, e = .lib l

structure Good {α} (r : R α) : Prop where
  h : ∀ e, r = .error e → LibOnly e

theorem good_pure {α} (a : α) : Good (pure a : R α) := ⟨by intro e h; cases h⟩
theorem good_ok {α} (a : α) : Good (.ok a : R α) := ⟨by intro e h; cases h⟩
theorem good_lib {α} (l : LibErr) : Good (.error (.lib l) : R α) := ⟨by intro e h; cases h; exact ⟨l, rfl⟩⟩
theorem good_adv {α} : Good (adv : R α) := good_lib _
theorem good_mcErr {α} : Good (mcErr : R α) := good_lib _

theorem good_bind {α β} {x : R α} {f : α → R β} (hx : Good x) (hf : ∀ a, x = .ok a → Good (f a)) :
    Good (x >>= f) := by
  constructor
  intro e h
  cases x with
  | error e' => simp [bind, Except.bind] at h; subst h; exact hx.h _ rfl
  | ok a => exact (hf a rfl).h e h

theorem good_bind' {α β} {x : R α} {f : α → R β} (hx : Good x) (hf : ∀ a, Good (f a)) :
    Good (x >>= f) := good_bind hx (fun a _ => hf a)

theorem good_mapM {α β} (f : α → R β) (l : List α) (hf : ∀ a ∈ l, Good (f a)) : Good (l.mapM f) := by
  induction l with
  | nil => simp [List.mapM_nil]; exact good_pure _
  | cons a r ih =>
    rw [List.mapM_cons]
    exact good_bind' (hf a (by simp)) (fun b => good_bind' (ih (fun x hx => hf x (by simp [hx])))
      (fun bs => good_pure _))

theorem good_foldlM {α β} (f : β → α → R β) (l : List α) (b : β) (hf : ∀ b, ∀ a ∈ l, Good (f b a)) :
    Good (l.foldlM f b) := by
  induction l generalizing b with
  | nil => simp [List.foldlM_nil]; exact good_pure _
  | cons a r ih =>
    rw [List.foldlM_cons]
    exact good_bind' (hf b a (by simp)) (fun b' => ih b' (fun b x hx => hf b x (by simp [hx])))

theorem good_forIn {α β} (l : List α) (b : β) (f : α → β → R (ForInStep β)) (hf : ∀ a b, Good (f a b)) :
    Good (forIn l b f) := by
  induction l generalizing b with
  | nil => simp; exact good_pure _
  | cons a r ih =>
    rw [List.forIn_cons]
    apply good_bind' (hf a b)
    intro s
    cases s with
    | done b' => exact good_pure _
    | yield b' => exact ih b'

theorem good_ite {α} (c : Prop) [Decidable c] (a b : R α) (ha : Good a) (hb : Good b) :
    Good (if c then a else b) := by split <;> assumption

/-! ### the lookups -/

theorem good_getSingle (items want) : Good (getSingle items want) := by
  unfold getSingle
  split
  · exact good_lib _
  · split
    · exact good_ok _
    · split
      · exact good_ok _
      · exact good_lib _
  · exact good_lib _

theorem good_checkMc (c : Option MultiClientCfg) (pn itf fc) (hg : ∀ m, c = some m → m.grant ≠ []) :
    Good (checkMulticlientCfg c pn itf fc) := by
  unfold checkMulticlientCfg
  split
  · exact good_ok _
  · rename_i m
    split
    · exact good_ok _
    · split
      · exact good_mcErr
      · split
        · exact good_mcErr
        · split
          · rename_i hgr; exact absurd hgr (hg m rfl)
          · split
            · exact good_mcErr
            · split
              · exact good_mcErr
              · split
                · exact good_mcErr
                · exact good_ok _
        · exact good_mcErr

theorem good_mkDznPortItf (p i s mc) : Good (mkDznPortItf p i s mc) := by
  unfold mkDznPortItf; split
  · exact good_mcErr
  · exact good_ok _

theorem good_processPort (cfg fc scope sems acc port) (hg : ∀ m, cfg.ports.multiclient = some m → m.grant ≠ []) :
    Good (processPort cfg fc scope sems acc port) := by
  unfold processPort
  apply good_bind' (good_getSingle _ _)
  intro d
  split
  · split
    · apply good_bind' (good_checkMc _ _ _ _ hg)
      intro mc
      split
      · exact good_adv
      · exact good_bind' (good_mkDznPortItf _ _ _ _) (fun _ => good_pure _)
    · split
      · split
        · exact good_adv
        · exact good_bind' (good_mkDznPortItf _ _ _ _) (fun _ => good_pure _)
      · exact good_pure _
  · exact good_lib _

theorem good_matchPorts (c : SemCfg) (expected : List Str) (h : [] ∉ expected) :
    Good (c.matchPorts expected) := by
  unfold SemCfg.matchPorts
  dsimp only
  split
  · exact good_adv
  · split
    · rename_i hc; simp at hc; exact absurd hc h
    · exact good_ok _

theorem good_matchAll (c : PortsCfg) (prov req : List Str) (hp : [] ∉ prov) (hr : [] ∉ req) :
    Good (c.matchAll prov req) := by
  unfold PortsCfg.matchAll
  exact good_bind' (good_matchPorts _ _ hp) (fun _ => good_bind' (good_matchPorts _ _ hr) (fun _ => good_pure _))

/-- well-formed configuration: what `MultiClientPortCfg.__post_init__` guarantees of every
    configuration object that exists (`mkMultiClientCfg`) -/
def WfCfg (cfg : Config) : Prop := ∀ m, cfg.ports.multiclient = some m → m.grant ≠ []

theorem wf_of_mk (m m' : MultiClientCfg) (h : mkMultiClientCfg m = .ok m') : m'.grant ≠ [] := by
  unfold mkMultiClientCfg at h
  repeat (split at h <;> try (cases h; done))
  injection h with h; subst h
  intro hg; simp_all

/-- port names are identifiers, hence non-empty (Dezyne's grammar; the JSON parser does not check) -/
def PortNamesNonEmpty (d : Decl) : Prop := ∀ p ∈ Decl.ports d, p.name ≠ []

theorem not_mem_names (ports : List Port) (f : Port → Bool) (h : ∀ p ∈ ports, p.name ≠ []) :
    [] ∉ ((ports.filter f).map (·.name)).eraseDups := by
  intro hm
  rw [List.mem_eraseDups] at hm
  obtain ⟨p, hp, hn⟩ := List.mem_map.mp hm
  exact h p ((List.mem_filter.mp hp).1) hn

/-! ### every exposed port descriptor refers to one of the encapsulee's ports -/

def PortsFrom (ports : List Port) (acc : List DznPortItf × List DznPortItf) : Prop :=
  (∀ d ∈ acc.1, d.port ∈ ports) ∧ (∀ d ∈ acc.2, d.port ∈ ports)

theorem mkDznPortItf_port (p i s mc d) (h : mkDznPortItf p i s mc = .ok d) : d.port = p := by
  unfold mkDznPortItf at h; split at h
  · cases h
  · injection h with h; subst h; rfl

theorem from_snoc1 (ports acc) (port : Port) (d : DznPortItf) (hacc : PortsFrom ports acc) (hp : port ∈ ports)
    (hd : d.port = port) : PortsFrom ports (acc.1 ++ [d], acc.2) := by
  refine ⟨fun x hx => ?_, hacc.2⟩
  rcases List.mem_append.mp hx with hx | hx
  · exact hacc.1 x hx
  · simp at hx; subst hx; rw [hd]; exact hp

theorem from_snoc2 (ports acc) (port : Port) (d : DznPortItf) (hacc : PortsFrom ports acc) (hp : port ∈ ports)
    (hd : d.port = port) : PortsFrom ports (acc.1, acc.2 ++ [d]) := by
  refine ⟨hacc.1, fun x hx => ?_⟩
  rcases List.mem_append.mp hx with hx | hx
  · exact hacc.2 x hx
  · simp at hx; subst hx; rw [hd]; exact hp

theorem processPort_from (cfg fc scope sems acc port ports r) (hacc : PortsFrom ports acc) (hp : port ∈ ports)
    (h : processPort cfg fc scope sems acc port = .ok r) : PortsFrom ports r := by
  unfold processPort at h
  simp only [bind, Except.bind, pure, Except.pure] at h
  split at h
  · cases h
  split at h
  · split at h
    · split at h
      · cases h
      split at h
      · cases h
      split at h
      · cases h
      · rename_i d hd
        injection h with h; subst h
        exact from_snoc1 _ _ _ _ hacc hp (mkDznPortItf_port _ _ _ _ _ hd)
    · split at h
      · split at h
        · cases h
        split at h
        · cases h
        · rename_i d hd
          injection h with h; subst h
          exact from_snoc2 _ _ _ _ hacc hp (mkDznPortItf_port _ _ _ _ _ hd)
      · injection h with h; subst h; exact hacc
  · cases h

theorem foldlM_from (cfg fc scope sems) (ports l : List Port) (acc r) (hl : ∀ p ∈ l, p ∈ ports)
    (hacc : PortsFrom ports acc) (h : l.foldlM (processPort cfg fc scope sems) acc = .ok r) :
    PortsFrom ports r := by
  induction l generalizing acc with
  | nil => simp [List.foldlM_nil, pure, Except.pure] at h; subst h; exact hacc
  | cons a t ih =>
    rw [List.foldlM_cons] at h
    simp only [bind, Except.bind] at h
    split at h
    · cases h
    · rename_i acc' ha
      exact ih acc' (fun p hp => hl p (by simp [hp]))
        (processPort_from _ _ _ _ _ _ _ _ hacc (hl a (by simp)) ha) h

theorem createDznElements_from (cfg fc enc de) (h : createDznElements cfg fc enc = .ok de) :
    (∀ d ∈ de.provides, d.port ∈ Decl.ports enc) ∧ (∀ d ∈ de.requires, d.port ∈ Decl.ports enc) := by
  unfold createDznElements at h
  simp only [bind, Except.bind, pure, Except.pure] at h
  repeat (split at h <;> try (cases h; done))
  injection h with h; subst h
  rename_i r hr _
  have := foldlM_from _ _ _ _ (Decl.ports enc) (Decl.ports enc) _ r (fun _ hp => hp)
    ⟨by simp, by simp⟩ hr
  rename_i pp rp _ _
  simp_all [PortsFrom]

theorem good_createDznElements (cfg fc enc) (hwf : WfCfg cfg) (hp : PortNamesNonEmpty enc) :
    Good (createDznElements cfg fc enc) := by
  unfold createDznElements
  split
  · exact good_adv
  · apply good_bind' (good_matchAll _ _ _ (not_mem_names _ _ hp) (not_mem_names _ _ hp))
    intro sems
    apply good_bind' (good_foldlM _ _ _ (fun b a _ => good_processPort _ _ _ _ _ _ hwf))
    intro r
    split
    split
    · exact good_adv
    · exact good_pure _

/-! ### C++ port descriptors and the wiring -/

theorem good_capFirst (s : Str) (h : s ≠ []) : Good (capFirst s) := by
  cases s with
  | nil => exact absurd rfl h
  | cons c cs => exact good_ok _

theorem good_createCppPortItf (d sn sfns) (h : d.port.name ≠ []) : Good (createCppPortItf d sn sfns) := by
  unfold createCppPortItf
  apply good_bind' (good_capFirst _ h)
  intro cap
  split <;> exact good_pure _

theorem good_formalCType (fc itf f) : Good (formalCType fc itf f) := by
  unfold formalCType
  apply good_bind' (good_getSingle _ _)
  intro d
  split
  · exact good_pure _
  · exact good_lib _

theorem good_lambdaParamsOf (fc itf ev refs) : Good (lambdaParamsOf fc itf ev refs) := by
  unfold lambdaParamsOf
  apply good_mapM
  intro f _
  exact good_bind' (good_formalCType _ _ _) (fun _ => good_pure _)

theorem good_rerouteIn (fc p) : Good (rerouteInEvents fc p) := by
  unfold rerouteInEvents
  apply good_mapM; intro ev _
  exact good_bind' (good_lambdaParamsOf _ _ _ _) (fun _ => good_pure _)

theorem good_rerouteOut (fc p) : Good (rerouteOutEvents fc p) := by
  unfold rerouteOutEvents
  apply good_mapM; intro ev _
  exact good_bind' (good_lambdaParamsOf _ _ _ _) (fun _ => good_pure _)

theorem good_rerouteMcOut (fc p) : Good (rerouteMcOutEvents fc p) := by
  unfold rerouteMcOutEvents
  apply good_mapM; intro ev _
  exact good_bind' (good_lambdaParamsOf _ _ _ _) (fun _ => good_pure _)

theorem good_initializePortAssigns (fc p mc) : Good (initializePortAssigns fc p mc) := by
  unfold initializePortAssigns
  apply good_mapM; intro ev _
  split
  · exact good_bind' (good_lambdaParamsOf _ _ _ _) (fun _ => good_pure _)
  · split
    · exact good_bind' (good_lambdaParamsOf _ _ _ _) (fun _ => good_pure _)
    · exact good_pure _

theorem good_createHelpers (fc ps sfns sn) : Good (createHelpers fc ps sfns sn) := by
  unfold createHelpers
  apply good_bind'
  · apply good_forIn
    intro p st
    split
    · exact good_bind' (good_pure _) (fun _ => good_pure _)
    · exact good_bind' (good_initializePortAssigns _ _ _) (fun _ => good_pure _)
  · intro r; exact good_pure _

theorem good_createConstructor (fc sn fac pp rp sfns) : Good (createConstructor fc sn fac pp rp sfns) := by
  unfold createConstructor
  dsimp only
  split <;> dsimp only
  all_goals
  apply good_bind' (good_mapM _ _ (fun _ _ => good_rerouteIn _ _)); intro _
  apply good_bind' (good_mapM _ _ (fun _ _ => good_rerouteOut _ _)); intro _
  apply good_bind' (good_mapM _ _ (fun _ _ => good_rerouteIn _ _)); intro _
  apply good_bind' (good_mapM _ _ (fun _ _ => good_rerouteMcOut _ _)); intro _
  exact good_pure _

theorem mapM_mem_ok {α β} (f : α → R β) (l : List α) (hf : ∀ a ∈ l, Good (f a)) : Good (l.mapM f) :=
  good_mapM f l hf

/-- the shell part of the build fails, if at all, with a library error -/
theorem good_buildShell (fc : FC) (cfg : Config) (hwf : WfCfg cfg)
    (hp : ∀ enc, getSingle (findFqn fc cfg.encapsulee) = .ok enc → PortNamesNonEmpty enc) :
    Good (buildShell fc cfg) := by
  unfold buildShell
  refine good_ite _ _ _ good_adv ?_
  · apply good_bind (good_getSingle _ _)
    intro enc henc
    apply good_bind (good_createDznElements _ _ _ hwf (hp enc henc))
    intro de hde
    have hfrom := createDznElements_from _ _ _ _ hde
    refine good_ite _ _ _ (good_lib _) ?_
    · apply good_bind' (good_mapM _ _ (fun d hd =>
        good_createCppPortItf _ _ _ (hp enc henc _ (hfrom.1 d hd))))
      intro pp
      apply good_bind' (good_mapM _ _ (fun d hd =>
        good_createCppPortItf _ _ _ (hp enc henc _ (hfrom.2 d hd))))
      intro rp
      apply good_bind' (good_createHelpers _ _ _ _)
      intro hi
      split
      apply good_bind' (good_createConstructor _ _ _ _ _ _)
      intro ca
      split
      split
      exact good_pure _

/-- the file names of a successful build -/
theorem names_of_build (fc cfg r) (h : build fc cfg = .ok r) :
    r.files.map (·.filename) =
      Spec.expectedFileNames (getBasename cfg.dezyneFilename ++ cfg.suffix) (distillateNs cfg.pfx).2.2 := by
  unfold build at h
  simp only [bind, Except.bind, pure, Except.pure] at h
  split at h
  · cases h
  · rename_i s hs
    injection h with h; subst h
    have hn : s.hh.filename = getBasename cfg.dezyneFilename ++ cfg.suffix ++ L ".hh" ∧
              s.cc.filename = getBasename cfg.dezyneFilename ++ cfg.suffix ++ L ".cc" := by
      unfold buildShell at hs
      simp only [bind, Except.bind, pure, Except.pure] at hs
      repeat (split at hs <;> try (cases hs; done))
      all_goals (injection hs with hs; subst hs; exact ⟨rfl, rfl⟩)
    simp [hn.1, hn.2, Spec.expectedFileNames, C06.support_files_named_by_prefix, Kind.all, Kind.fileSuffix,
      Lit.iLogFileSuffix, Lit.miscUtilsFileSuffix, Lit.metaHelpersFileSuffix, Lit.mutexWrappedFileSuffix,
      Lit.strictPortFileSuffix, Lit.multiClientSelectorFileSuffix]

/-- **C13 (complete result or diagnosed error)**: for every model and every well-formed
    configuration, `build` returns all eight files (header, source, six support files — with exactly
    the expected names) or fails with one of the library's own errors; never an internal error
    (KeyError, AttributeError, IndexError, TypeError, RecursionError), never a partial file set.
    Termination ("never hangs") is the totality of `build`. -/
theorem trichotomy (fc : FC) (cfg : Config) (hwf : WfCfg cfg)
    (hp : ∀ enc, getSingle (findFqn fc cfg.encapsulee) = .ok enc → PortNamesNonEmpty enc) :
    (∃ r, build fc cfg = .ok r ∧ r.files.length = 8 ∧
        r.files.map (·.filename) =
          Spec.expectedFileNames (getBasename cfg.dezyneFilename ++ cfg.suffix) (distillateNs cfg.pfx).2.2) ∨
    (∃ l, build fc cfg = .error (.lib l)) := by
  cases hb : build fc cfg with
  | ok r => exact Or.inl ⟨r, rfl, C06.eight_files fc cfg r hb, names_of_build fc cfg r hb⟩
  | error e =>
    right
    have hg : Good (build fc cfg) := by
      unfold build
      exact good_bind' (good_buildShell fc cfg hwf hp) (fun _ => good_pure _)
    obtain ⟨l, hl⟩ := hg.h e hb
    exact ⟨l, by rw [hl]⟩

/-- a successful build is never partial (no hypothesis needed) -/
theorem complete_file_set (fc : FC) (cfg : Config) (r : BuildResult) (h : build fc cfg = .ok r) :
    r.files.length = 8 ∧
    r.files.map (·.filename) =
      Spec.expectedFileNames (getBasename cfg.dezyneFilename ++ cfg.suffix) (distillateNs cfg.pfx).2.2 :=
  ⟨C06.eight_files fc cfg r h, names_of_build fc cfg r h⟩

/-- the two hypotheses of `trichotomy` are exactly the excluded inputs: a granting reply value that
    is the empty identifier list makes the model (and the implementation: `[0]` on an empty list)
    fail with an internal error — `MultiClientPortCfg.__post_init__` refuses to construct such a
    configuration, which is why `WfCfg` holds of every configuration object that exists -/
theorem wf_needed (pn itf fc) (c : MultiClientCfg) (hpn : pn = c.portName) (hg : c.grant = [])
    (claim : Event) (rest : List Event) (hc : itf.events.filter (fun e => e.name = c.claimEvent) = claim :: rest)
    (en : EnumD) (hen : getSingle (findFqn fc claim.replyType itf.fqn) (some isEnum) = .ok (.enum en)) :
    checkMulticlientCfg (some c) pn itf fc = .error (.internal .IndexError) := by
  unfold checkMulticlientCfg
  simp [hpn, hc, hen, hg]

end C13
