/-
  C04 (continued) — from `Builder.build` to the wiring the history theorems of `C04Gen` need:
  what `create_cpp_port_helpers` / `initialize_port_impl` produce (`createHelpers_inits`,
  `initAssignOf_*`), what registering a client does (`registered`, `register_all`), what the
  constructor establishes for the arbitered port (`generated_mc_in_slots`), and their composition
  `build_mc_wired` / `build_history_holder`: for every model and configuration the builder accepts.
-/
import DznModel
import DznProofs.C04Gen
import DznProofs.C10Gen
open Py Text Scoping Ast AstView PortSel CppGen Support Shell Sem Lem

namespace C04

/-! ### the `InitializePort<Port>` bodies `create_cpp_port_helpers` produces -/

/-- the entry of one port: its name and the assignments of its `InitializePort` body -/
def initEntry (fc : FC) (p : CppPortItf) : Option (Str × List Assign) :=
  match p.dzn.mc with
  | none => none
  | some mc =>
    match initializePortAssigns fc p mc with
    | .ok v => some (p.name, v)
    | .error _ => none

theorem forIn_third {α A B C : Type} (l : List α) (f : α → (A × B × List C) → R (ForInStep (A × B × List C)))
    (ent : α → List C)
    (hf : ∀ a s x, f a s = .ok x → ∃ s', x = .yield s' ∧ s'.2.2 = s.2.2 ++ ent a)
    (s r : A × B × List C) (h : forIn l s f = .ok r) : r.2.2 = s.2.2 ++ l.flatMap ent := by
  induction l generalizing s with
  | nil =>
    simp only [List.forIn_nil, pure, Except.pure] at h
    injection h with h; subst h; simp
  | cons a t ih =>
    rw [List.forIn_cons] at h
    simp only [bind, Except.bind] at h
    split at h
    · cases h
    · rename_i x hx
      obtain ⟨s', rfl, hs'⟩ := hf a s x hx
      simp only at h
      rw [ih s' h, hs']
      simp [List.append_assoc]

theorem createHelpers_inits (fc : FC) (ps : List CppPortItf) (sfns : Ids) (sn : Str) (hl : Helpers)
    (inits : List (Str × List Assign)) (h : createHelpers fc ps sfns sn = .ok (hl, inits)) :
    inits = ps.flatMap (fun p => (initEntry fc p).toList) := by
  unfold createHelpers at h
  simp only [bind, Except.bind, pure, Except.pure] at h
  split at h
  · cases h
  · rename_i v hv
    injection h with h
    injection h with _ h
    subst h
    have := forIn_third ps _ (fun p => (initEntry fc p).toList) ?_ ([], [], []) v hv
    · simpa using this
    · intro p s x hx
      unfold initEntry
      cases hmc : p.dzn.mc with
      | none =>
        simp only [hmc] at hx
        injection hx with hx; subst hx
        exact ⟨_, rfl, by simp⟩
      | some mc =>
        simp only [hmc] at hx
        cases hi : initializePortAssigns fc p mc with
        | error e => rw [hi] at hx; cases hx
        | ok as =>
          rw [hi] at hx
          injection hx with hx; subst hx
          exact ⟨_, rfl, by simp [hi]⟩


/-! ### registering a client -/

/-- the assignments `InitializePort<Port>` executes for a new client port -/
def initAssigns (ir : ShellIR) (p : CppPortItf) : List Assign :=
  ((ir.initPort.find? (·.1 = p.name)).map (·.2)).getD []

theorem registerClient_new (w : World) (p : CppPortItf) (id : Str) (sel : Selector)
    (hs : w.selector p.target = some sel) (hid : id ≠ []) (hnew : id ∉ sel.clients)
    (hnf : sel.finalConstructed = false) :
    registerClient w p id =
      (runAssigns (w.setSelector { sel with clients := sel.clients ++ [id] }) (initAssigns w.ir p) p.target id
        (some p.dzn.itf), none) := by
  have he : id.isEmpty = false := by cases id <;> simp_all
  unfold registerClient initAssigns
  simp [hs, he, hnew, hnf]
  rfl

theorem resolve_local (d : EvDir) (e cmv cid : Str) :
    resolveSlot ⟨.local_, d, e⟩ cmv cid = ⟨.client cmv cid, d, e⟩ := rfl

/-- after registration the new client port's slots hold the `InitializePort` handlers, every other
    slot is untouched, the selector knows the client -/
theorem registered (w : World) (p : CppPortItf) (id : Str) (sel : Selector)
    (hs : w.selector p.target = some sel) (hid : id ≠ []) (hnew : id ∉ sel.clients)
    (hnf : sel.finalConstructed = false)
    (hloc : ∀ a ∈ initAssigns w.ir p, a.lhs.obj = .local_) :
    let w' := (registerClient w p id).1
    (registerClient w p id).2 = none ∧
    w'.selector p.target = some { sel with clients := sel.clients ++ [id] } ∧
    w'.queue = w.queue ∧ w'.grantIndex = w.grantIndex ∧ w'.ir = w.ir ∧
    (∀ k : RSlot, k.obj ≠ .client p.target id → w'.get k = w.get k) ∧
    (∀ a ∈ initAssigns w.ir p, ∀ ev,
        p.dzn.itf.events.find? (fun e => e.name = a.lhs.ev ∧ evDirOf e = a.lhs.dir) = some ev →
        (∀ b ∈ initAssigns w.ir p, b.lhs.dir = a.lhs.dir → b.lhs.ev = a.lhs.ev → b.rhs = a.rhs) →
        w'.get ⟨.client p.target id, a.lhs.dir, a.lhs.ev⟩ = some (.ir a.rhs ev id p.target)) := by
  rw [registerClient_new w p id sel hs hid hnew hnf]
  simp only
  have hmv := selector_mv w p.target sel hs
  refine ⟨trivial, ?_, ?_, ?_, ?_, ?_, ?_⟩
  · -- selector
    have hsel : ∀ (w0 : World) (as : List Assign) (a b : Str) (c : Option InterfaceD),
        (runAssigns w0 as a b c).selectors = w0.selectors := by
      intro w0 as a b c
      induction as generalizing w0 with
      | nil => rfl
      | cons x r ih => rw [C01.runAssigns_cons, ih]; split <;> rfl
    have h1 := selector_setSelector w { sel with clients := sel.clients ++ [id] }
    simp only at h1
    unfold World.selector at h1 ⊢
    rw [hsel, ← hmv]
    exact h1
  · rw [C01.runAssigns_queue]; rfl
  · have : ∀ (w0 : World) (as : List Assign) (a b : Str) (c : Option InterfaceD),
        (runAssigns w0 as a b c).grantIndex = w0.grantIndex := by
      intro w0 as a b c
      induction as generalizing w0 with
      | nil => rfl
      | cons x r ih => rw [C01.runAssigns_cons, ih]; split <;> rfl
    rw [this]; rfl
  · rw [C01.runAssigns_ir]; rfl
  · intro k hk
    rw [C01.runAssigns_get_other]
    · rfl
    · intro a ha e
      have hl := hloc a ha
      have : (resolveSlot a.lhs p.target id).obj = .client p.target id := by
        simp [resolveSlot, resolveObj, hl]
      rw [e] at this
      exact hk this
  · intro a ha ev hev hsame
    have hl := hloc a ha
    have hslot : resolveSlot a.lhs p.target id = ⟨.client p.target id, a.lhs.dir, a.lhs.ev⟩ := by
      simp [resolveSlot, resolveObj, hl]
    rw [← hslot]
    have hE : ∀ c : Assign, c.lhs.obj = .local_ →
        C01.eventOfAssign (w.setSelector { sel with clients := sel.clients ++ [id] }).ir c (some p.dzn.itf) =
          p.dzn.itf.events.find? (fun e => e.name = c.lhs.ev ∧ evDirOf e = c.lhs.dir) := by
      intro c hc
      unfold C01.eventOfAssign
      simp [hc]
    apply C01.runAssigns_get_of _ _ _ _ _ a ha ev
    intro b hb hk
    have hbl := hloc b hb
    have hk' : (resolveSlot b.lhs p.target id).dir = (resolveSlot a.lhs p.target id).dir ∧
        (resolveSlot b.lhs p.target id).ev = (resolveSlot a.lhs p.target id).ev := by rw [hk]; exact ⟨rfl, rfl⟩
    have hd : b.lhs.dir = a.lhs.dir := hk'.1
    have he : b.lhs.ev = a.lhs.ev := hk'.2
    refine ⟨hsame b hb hd he, ?_⟩
    rw [hE b hbl, hd, he]
    exact hev


/-! ### the assignments of `initialize_port_impl`, event by event -/

theorem eventEq_refl (e : Event) : eventEq e e = true := by
  unfold eventEq
  simp only [decide_true, Bool.true_and, Bool.and_eq_true, List.all_eq_true, decide_eq_true_eq]
  intro xy hxy
  have key : ∀ (l : List Formal) (xy : Formal × Formal), xy ∈ l.zip l → xy.1 = xy.2 := by
    intro l
    induction l with
    | nil => intro xy h; simp at h
    | cons a r ih =>
      intro xy h
      simp only [List.zip_cons_cons, List.mem_cons] at h
      rcases h with rfl | h
      · rfl
      · exact ih xy h
  have := key e.formals xy hxy
  simp [this]

theorem eventEq_name (a b : Event) (h : eventEq a b = true) : a.name = b.name := by
  unfold eventEq at h
  simp only [Bool.and_eq_true, decide_eq_true_eq] at h
  exact h.1.1.1.1

/-- the assignment for one in-event of the multi-client port -/
def initAssignOf (fc : FC) (p : CppPortItf) (mc : McFixture) (ev : Event) : R Assign := do
  if eventEq ev mc.claimEvent then
    let ps ← lambdaParamsOf fc p.dzn.itf mc.claimEvent true
    pure { lhs := { obj := .local_, dir := .in_, ev := mc.claimEvent.name },
           rhs := .mcClaim p.target mc.claimEvent.name ps (formalNames mc.claimEvent)
                    (Fqn.str { ids := mc.grant, root := true }) }
  else if eventEq ev mc.releaseEvent then
    let ps ← lambdaParamsOf fc p.dzn.itf mc.releaseEvent true
    pure { lhs := { obj := .local_, dir := .in_, ev := mc.releaseEvent.name },
           rhs := .mcRelease p.target mc.releaseEvent.name mc.releaseEvent.name ps (formalNames mc.releaseEvent) }
  else
    pure { lhs := { obj := .local_, dir := .in_, ev := ev.name },
           rhs := .ref { obj := (if p.isMc then PortObj.arb p.target else .bnd p.target), dir := .in_, ev := ev.name } }

theorem initializePortAssigns_eq (fc : FC) (p : CppPortItf) (mc : McFixture) :
    initializePortAssigns fc p mc = (inEvents p.dzn.itf).mapM (initAssignOf fc p mc) := rfl

theorem initAssignOf_lhs (fc : FC) (p : CppPortItf) (mc : McFixture) (ev : Event) (a : Assign)
    (h : initAssignOf fc p mc ev = .ok a) : a.lhs = ⟨.local_, .in_, ev.name⟩ := by
  unfold initAssignOf at h
  simp only [bind, Except.bind, pure, Except.pure] at h
  split at h
  · rename_i he
    split at h
    · cases h
    · injection h with h; subst h; simp [eventEq_name _ _ he]
  · split at h
    · rename_i he
      split at h
      · cases h
      · injection h with h; subst h; simp [eventEq_name _ _ he]
    · injection h with h; subst h; rfl

theorem initAssignOf_claim (fc : FC) (p : CppPortItf) (mc : McFixture) (a : Assign)
    (h : initAssignOf fc p mc mc.claimEvent = .ok a) :
    ∃ ps, lambdaParamsOf fc p.dzn.itf mc.claimEvent true = .ok ps ∧
      a.rhs = .mcClaim p.target mc.claimEvent.name ps (formalNames mc.claimEvent) (Fqn.str { ids := mc.grant, root := true }) := by
  unfold initAssignOf at h
  simp only [eventEq_refl, if_true, bind, Except.bind, pure, Except.pure] at h
  split at h
  · cases h
  · rename_i ps hps
    injection h with h; subst h
    exact ⟨ps, hps, rfl⟩

theorem initAssignOf_release (fc : FC) (p : CppPortItf) (mc : McFixture) (a : Assign)
    (hne : mc.releaseEvent.name ≠ mc.claimEvent.name)
    (h : initAssignOf fc p mc mc.releaseEvent = .ok a) :
    ∃ ps, lambdaParamsOf fc p.dzn.itf mc.releaseEvent true = .ok ps ∧
      a.rhs = .mcRelease p.target mc.releaseEvent.name mc.releaseEvent.name ps (formalNames mc.releaseEvent) := by
  unfold initAssignOf at h
  have hf : eventEq mc.releaseEvent mc.claimEvent = false := by
    cases hc : eventEq mc.releaseEvent mc.claimEvent with
    | false => rfl
    | true => exact absurd (eventEq_name _ _ hc) hne
  simp only [hf, Bool.false_eq_true, if_false, eventEq_refl, if_true, bind, Except.bind, pure, Except.pure] at h
  split at h
  · cases h
  · rename_i ps hps
    injection h with h; subst h
    exact ⟨ps, hps, rfl⟩


/-! ### what the constructor establishes for the arbitered port of a multi-client port -/

open C01 in
/-- for every in-event of the multi-client port the constructed shell has the rerouting handler on
    the arbitered port and the component's own handler behind it -/
theorem generated_mc_in_slots (fc : FC) (sn : Str) (fac : Facilities) (pp rp : List CppPortItf) (sfns : Ids)
    (ctor : CppGen.Constructor) (assigns : List Assign)
    (h : createConstructor fc sn fac pp rp sfns = .ok (ctor, assigns))
    (ir : ShellIR) (hpp : ir.provides = pp) (hrp : ir.requires = rp) (has : ir.ctorAssigns = assigns)
    (p : CppPortItf) (hp : p ∈ mtsPorts pp) (hmc : p.isMc = true) (ev : Event) (hev : ev ∈ inEvents p.dzn.itf)
    (hinj : ∀ q ∈ pp ++ rp, q.target = p.target → q = p)
    (hnames : ∀ q ∈ rp, q.name ≠ p.name)
    (hevu : ∀ e ∈ p.dzn.itf.events, e.name = ev.name → evDirOf e = .in_ → e = ev)
    (allPorts : List (Port × InterfaceD)) (hpa : (p.dzn.port, p.dzn.itf) ∈ allPorts) (hu : UniqueEvents allPorts)
    (hdir : p.dzn.port.dir = .provides)
    (gi : Option Nat) (pump runtime : Bool) (name : Str) (extra : Bool)
    (w : World) (hw : construct ir allPorts gi pump runtime none name extra = .ok w) :
    ∃ ps, lambdaParamsOf fc p.dzn.itf ev true = .ok ps ∧ ps.map (·.name) = ev.formals.map (·.name) ∧
      w.get ⟨.arb p.target, .in_, ev.name⟩ =
        some (.ir (.shell ⟨.enc p.name, .in_, ev.name⟩ ps (ps.map (·.name)) (inFormalNames ev)) ev [] []) ∧
      w.get ⟨.enc p.name, .in_, ev.name⟩ = some (.scripted .comp p.name ev) := by
  obtain ⟨hevm, hevd⟩ := mem_inEvents _ _ hev
  have hin : evDirOf ev = .in_ := evDirOf_in ev hevd
  obtain ⟨ps, hps, hmem⟩ := in_event_assigned fc sn fac pp rp sfns ctor assigns h p hp ev hev
  have hnm : ps.map (·.name) = ev.formals.map (·.name) := lambdaParams_names fc p.dzn.itf ev true ps hps
  have hppmem : p ∈ pp := (List.mem_filter.mp hp).1
  have hA : inAssign p ev ps = (Assign.mk ⟨.arb p.target, .in_, ev.name⟩ (.shell ⟨.enc p.name, .in_, ev.name⟩ ps (ps.map (·.name)) (inFormalNames ev))) := by
    simp [inAssign, hmc, formalNames, hnm]
  have hfind : ∀ s : Slot, s.obj = .arb p.target → s.dir = .in_ → s.ev = ev.name →
      findEvent (ir.provides ++ ir.requires) s = some ev := by
    intro s ho hd he
    unfold findEvent
    simp only [ho, hpp, hrp]
    rw [find?_unique (pp ++ rp) (fun q => decide (q.target = p.target)) p (by simp [hppmem]) (by simp)
          (fun q hq hqt => hinj q hq (by simpa using hqt))]
    simp only [Option.bind]
    rw [he, hd]
    exact find?_unique _ _ ev hevm (by simp [hin]) (fun e he' hq => by
      simp only [decide_eq_true_eq] at hq
      exact hevu e he' hq.1 hq.2)
  have hcc : ctorCheck ir pump runtime = none := by
    unfold construct at hw
    split at hw
    · cases hw
    · assumption
  obtain ⟨w', hw', _, hassign, hcomp⟩ := constructed_store ir allPorts gi pump runtime name extra hcc
  have hww : w' = w := by rw [hw] at hw'; injection hw' with e; exact e.symm
  subst hww
  refine ⟨ps, hps, hnm, ?_, ?_⟩
  · have := hassign (inAssign p ev ps) (by rw [has]; exact hmem) ev (hfind _ (by simp [inAssign, hmc]) rfl rfl)
      (by simp [inAssign, hmc]) ?_
    · rw [hA] at this; exact this
    · intro b hb hk
      rw [has] at hb
      obtain ⟨hkd, hke, hko⟩ := resolveSlot_obj b.lhs
      rw [hk] at hkd hke hko
      cases assign_origin fc sn fac pp rp sfns ctor assigns h b hb with
      | inEvent q hq ev' hev' ps' hps' e =>
        subst e
        obtain ⟨hevm', hevd'⟩ := mem_inEvents _ _ hev'
        have hqmc : q.isMc = true := by
          cases hq' : q.isMc with
          | true => rfl
          | false => simp [inAssign, hq', hmc, resolveObj, resolveSlot] at hko
        have hqt : q.target = p.target := by
          simp [inAssign, hqmc, hmc, resolveObj, resolveSlot] at hko; exact hko.symm
        have hqp : q = p := hinj q (by simp [(List.mem_filter.mp hq).1]) hqt
        subst hqp
        have hen : ev'.name = ev.name := by simpa [inAssign, resolveSlot] using hke.symm
        have hee : ev' = ev := hevu ev' hevm' hen (evDirOf_in ev' hevd')
        subst hee
        have : ps' = ps := by rw [hps] at hps'; injection hps' with e; exact e.symm
        subst this
        exact ⟨rfl, by simp [inAssign, hmc], hfind _ (by simp [inAssign, hmc]) rfl rfl⟩
      | provOut q _ _ ev' _ e => subst e; simp [provOutAssign, inAssign, hmc, resolveObj, resolveSlot] at hko
      | mcEncOut q _ _ ev' _ e => subst e; simp [mcEncOutAssign, inAssign, hmc, resolveObj, resolveSlot] at hko
      | arbOut q _ _ hl => rw [hl.2] at hkd; simp [inAssign, resolveSlot] at hkd
      | reqOut q _ ev' _ ps' _ e => subst e; simp [outAssign, inAssign, resolveSlot] at hkd
      | reqIn q _ ev' _ e => subst e; simp [reqInAssign, inAssign, hmc, resolveObj, resolveSlot] at hko
  · have := hcomp hu p.dzn.port p.dzn.itf ev hpa hevm (Or.inl ⟨hdir, hin⟩) ?_
    · simpa [compSlot, hin, CppPortItf.name] using this
    · intro b hb hk
      rw [has] at hb
      obtain ⟨hkd, hke, hko⟩ := resolveSlot_obj b.lhs
      rw [hk] at hkd hke hko
      simp only [compSlot, hin] at hkd hke hko
      cases assign_origin fc sn fac pp rp sfns ctor assigns h b hb with
      | inEvent q hq ev' hev' ps' hps' e =>
        subst e
        cases hq' : q.isMc <;> simp [inAssign, hq', resolveObj] at hko
      | provOut q _ _ ev' _ e => subst e; simp [provOutAssign] at hkd
      | mcEncOut q _ _ ev' _ e => subst e; simp [mcEncOutAssign] at hkd
      | arbOut q _ _ hl => rw [hl.1] at hko; simp [resolveObj] at hko
      | reqOut q _ ev' _ ps' _ e => subst e; simp [outAssign, resolveObj] at hko
      | reqIn q hq ev' _ e =>
        subst e
        simp only [reqInAssign, resolveObj] at hko
        injection hko with hko
        exact hnames q (List.mem_filter.mp hq).1 hko.symm


/-! ### pieces for the composition -/

theorem initPort_find (fc : FC) (pp : List CppPortItf) (p : CppPortItf) (as : List Assign) (hp : p ∈ pp)
    (he : initEntry fc p = some (p.name, as)) (hninj : ∀ q ∈ pp, q.name = p.name → q = p) :
    (pp.flatMap (fun q => (initEntry fc q).toList)).find? (fun x => decide (x.1 = p.name)) = some (p.name, as) := by
  induction pp with
  | nil => cases hp
  | cons q r ih =>
    simp only [List.flatMap_cons, List.find?_append]
    by_cases hq : q = p
    · subst hq; simp [he]
    · have hpr : p ∈ r := by
        rcases List.mem_cons.mp hp with e | e
        · exact absurd e.symm hq
        · exact e
      have hnone : (initEntry fc q).toList.find? (fun x => decide (x.1 = p.name)) = none := by
        cases hqe : initEntry fc q with
        | none => rfl
        | some x =>
          have hx : x.1 = q.name := by
            unfold initEntry at hqe
            split at hqe
            · cases hqe
            · split at hqe
              · injection hqe with hqe; subst hqe; rfl
              · cases hqe
          have : x.1 ≠ p.name := by
            rw [hx]; intro e; exact hq (hninj q (by simp) e)
          simp [this]
      rw [hnone]
      simpa using ih hpr (fun q' hq' => hninj q' (by simp [hq']))

theorem runAssigns_selectors (w0 : World) (as : List Assign) (a b : Str) (c : Option InterfaceD) :
    (runAssigns w0 as a b c).selectors = w0.selectors := by
  induction as generalizing w0 with
  | nil => rfl
  | cons x r ih => rw [C01.runAssigns_cons, ih]; split <;> rfl

/-- the selector of a multi-client port right after construction: no client, nobody selected, not locked -/
theorem construct_selector (ir : ShellIR) (allPorts : List (Port × InterfaceD)) (gi : Option Nat) (pump runtime : Bool)
    (name : Str) (extra : Bool) (w : World) (hw : construct ir allPorts gi pump runtime none name extra = .ok w)
    (p : CppPortItf) (hp : p ∈ ir.provides) (hmc : p.isMc = true)
    (hinj : ∀ q ∈ ir.provides, q.target = p.target → q = p) :
    w.selector p.target = some { mv := p.target, port := p.name } := by
  unfold construct at hw
  split at hw
  · cases hw
  · injection hw with hw; subst hw
    unfold World.selector
    rw [runAssigns_selectors]
    simp only
    rw [List.find?_map]
    have := C01.find?_unique (ir.provides.filter (·.isMc)) (fun q => decide (q.target = p.target)) p
      (List.mem_filter.mpr ⟨hp, hmc⟩) (by simp)
      (fun q hq hqt => hinj q (List.mem_filter.mp hq).1 (by simpa using hqt))
    simp only [Function.comp_def]
    rw [this]; rfl


/-- every assignment of an `InitializePort` body writes a slot of the new client port -/
theorem initAssigns_local (fc : FC) (p : CppPortItf) (mc : McFixture) (as : List Assign)
    (h : initializePortAssigns fc p mc = .ok as) : ∀ a ∈ as, a.lhs.obj = .local_ := by
  rw [initializePortAssigns_eq] at h
  intro a ha
  obtain ⟨ev, _, hf⟩ := C01.mapM_mem _ _ _ h a ha
  rw [initAssignOf_lhs fc p mc ev a hf]

/-- the slot one in-event of the new client port gets, when that event's name is unique -/
theorem client_slot (fc : FC) (p : CppPortItf) (mc : McFixture) (as : List Assign)
    (has : initializePortAssigns fc p mc = .ok as)
    (ev : Event) (hev : ev ∈ inEvents p.dzn.itf)
    (hevu : ∀ e ∈ p.dzn.itf.events, e.name = ev.name → evDirOf e = .in_ → e = ev)
    (w : World) (id : Str) (sel : Selector)
    (hs : w.selector p.target = some sel) (hid : id ≠ []) (hnew : id ∉ sel.clients) (hnf : sel.finalConstructed = false)
    (hia : initAssigns w.ir p = as) :
    ∃ a, initAssignOf fc p mc ev = .ok a ∧
      (registerClient w p id).1.get ⟨.client p.target id, .in_, ev.name⟩ = some (.ir a.rhs ev id p.target) := by
  have has' := has
  rw [initializePortAssigns_eq] at has'
  obtain ⟨a, ha, hf⟩ := C01.mapM_mem_fwd _ _ _ has' ev hev
  have hl := initAssignOf_lhs fc p mc ev a hf
  obtain ⟨hevm, hevd⟩ := C01.mem_inEvents _ _ hev
  have hreg := registered w p id sel hs hid hnew hnf (by rw [hia]; exact initAssigns_local fc p mc as has)
  simp only at hreg
  obtain ⟨_, _, _, _, _, _, hslots⟩ := hreg
  refine ⟨a, hf, ?_⟩
  have := hslots a (by rw [hia]; exact ha) ev
    (by rw [hl]; simp only
        exact C01.find?_unique _ _ ev hevm (by simp [C01.evDirOf_in ev hevd]) (fun e he' hq => by
          simp only [decide_eq_true_eq] at hq
          exact hevu e he' hq.1 hq.2))
    (by
      intro b hb _ hbe
      rw [hia] at hb
      obtain ⟨ev', hev', hf'⟩ := C01.mapM_mem _ _ _ has' b hb
      have hl' := initAssignOf_lhs fc p mc ev' b hf'
      obtain ⟨hevm', hevd'⟩ := C01.mem_inEvents _ _ hev'
      have hn : ev'.name = ev.name := by rw [hl', hl] at hbe; exact hbe
      have : ev' = ev := hevu ev' hevm' hn (C01.evDirOf_in ev' hevd')
      subst this
      rw [hf] at hf'; injection hf' with e; rw [e])
  rw [hl] at this
  exact this


/-! ### registering any number of clients on a constructed shell -/

/-- the state after the clients `done` have been registered on the world `w0` -/
structure RegInv (w0 w : World) (p : CppPortItf) (claim release : Event) (cl rl : Handler) (done : List Str) : Prop where
  frame : ∀ k : RSlot, (∀ id ∈ done, k.obj ≠ .client p.target id) → w.get k = w0.get k
  claimSlot : ∀ id ∈ done, w.get ⟨.client p.target id, .in_, claim.name⟩ = some (.ir cl claim id p.target)
  releaseSlot : ∀ id ∈ done, w.get ⟨.client p.target id, .in_, release.name⟩ = some (.ir rl release id p.target)
  queue : w.queue = w0.queue
  grantIndex : w.grantIndex = w0.grantIndex
  ir : w.ir = w0.ir
  selector : w.selector p.target = some { mv := p.target, port := p.name, clients := done }

theorem register_all (fc : FC) (p : CppPortItf) (mc : McFixture) (as : List Assign)
    (has : initializePortAssigns fc p mc = .ok as)
    (hcl : mc.claimEvent ∈ inEvents p.dzn.itf) (hrl : mc.releaseEvent ∈ inEvents p.dzn.itf)
    (hne : mc.releaseEvent.name ≠ mc.claimEvent.name)
    (hevuC : ∀ e ∈ p.dzn.itf.events, e.name = mc.claimEvent.name → evDirOf e = .in_ → e = mc.claimEvent)
    (hevuR : ∀ e ∈ p.dzn.itf.events, e.name = mc.releaseEvent.name → evDirOf e = .in_ → e = mc.releaseEvent)
    (w0 : World) (hia : initAssigns w0.ir p = as)
    (hs0 : w0.selector p.target = some { mv := p.target, port := p.name })
    (ids : List Str) (hids : ∀ id ∈ ids, id ≠ []) (hnd : ids.Nodup) :
    ∃ psC psR, lambdaParamsOf fc p.dzn.itf mc.claimEvent true = .ok psC ∧
      lambdaParamsOf fc p.dzn.itf mc.releaseEvent true = .ok psR ∧
      RegInv w0 (ids.foldl (fun w id => (registerClient w p id).1) w0) p mc.claimEvent mc.releaseEvent
        (.mcClaim p.target mc.claimEvent.name psC (formalNames mc.claimEvent) (CppGen.Fqn.str { ids := mc.grant, root := true }))
        (.mcRelease p.target mc.releaseEvent.name mc.releaseEvent.name psR (formalNames mc.releaseEvent)) ids := by
  -- the two handlers, fixed once
  have has' := has
  rw [initializePortAssigns_eq] at has'
  obtain ⟨aC, _, hfC⟩ := C01.mapM_mem_fwd _ _ _ has' _ hcl
  obtain ⟨psC, hpsC, hrC⟩ := initAssignOf_claim fc p mc aC hfC
  obtain ⟨aR, _, hfR⟩ := C01.mapM_mem_fwd _ _ _ has' _ hrl
  obtain ⟨psR, hpsR, hrR⟩ := initAssignOf_release fc p mc aR hne hfR
  refine ⟨psC, psR, hpsC, hpsR, ?_⟩
  -- induction over the clients still to be registered
  have key : ∀ (rest pre : List Str) (w : World),
      RegInv w0 w p mc.claimEvent mc.releaseEvent
        (.mcClaim p.target mc.claimEvent.name psC (formalNames mc.claimEvent) (CppGen.Fqn.str { ids := mc.grant, root := true }))
        (.mcRelease p.target mc.releaseEvent.name mc.releaseEvent.name psR (formalNames mc.releaseEvent)) pre →
      (∀ id ∈ rest, id ≠ []) → (pre ++ rest).Nodup →
      RegInv w0 (rest.foldl (fun w id => (registerClient w p id).1) w) p mc.claimEvent mc.releaseEvent
        (.mcClaim p.target mc.claimEvent.name psC (formalNames mc.claimEvent) (CppGen.Fqn.str { ids := mc.grant, root := true }))
        (.mcRelease p.target mc.releaseEvent.name mc.releaseEvent.name psR (formalNames mc.releaseEvent)) (pre ++ rest) := by
    intro rest
    induction rest with
    | nil => intro pre w inv _ _; simpa using inv
    | cons id rest ih =>
      intro pre w inv hne' hnd'
      have hidnew : id ∉ pre := by
        have := List.nodup_append.mp hnd'
        intro hm
        exact this.2.2 id hm id (by simp) rfl
      have hidne : id ≠ [] := hne' id (by simp)
      have hreg := registered w p id _ inv.selector hidne hidnew rfl
        (by rw [inv.ir, hia]; exact initAssigns_local fc p mc as has)
      simp only at hreg
      obtain ⟨_, hsel', hq', hg', hir', hframe', _⟩ := hreg
      obtain ⟨aC', hfC', hslotC⟩ := client_slot fc p mc as has mc.claimEvent hcl hevuC w id _ inv.selector hidne hidnew rfl
        (by rw [inv.ir, hia])
      obtain ⟨aR', hfR', hslotR⟩ := client_slot fc p mc as has mc.releaseEvent hrl hevuR w id _ inv.selector hidne hidnew rfl
        (by rw [inv.ir, hia])
      have eC : aC' = aC := by rw [hfC] at hfC'; injection hfC' with e; exact e.symm
      have eR : aR' = aR := by rw [hfR] at hfR'; injection hfR' with e; exact e.symm
      rw [eC, hrC] at hslotC
      rw [eR, hrR] at hslotR
      have hother : ∀ id' ∈ pre, (RObj.client p.target id' : RObj) ≠ .client p.target id := by
        intro id' hid' e
        injection e with _ e
        exact hidnew (e ▸ hid')
      have inv' : RegInv w0 (registerClient w p id).1 p mc.claimEvent mc.releaseEvent
          (.mcClaim p.target mc.claimEvent.name psC (formalNames mc.claimEvent) (CppGen.Fqn.str { ids := mc.grant, root := true }))
          (.mcRelease p.target mc.releaseEvent.name mc.releaseEvent.name psR (formalNames mc.releaseEvent)) (pre ++ [id]) :=
        { frame := by
            intro k hk
            rw [hframe' k (hk id (by simp))]
            exact inv.frame k (fun id' hid' => hk id' (by simp [hid']))
          claimSlot := by
            intro id' hid'
            rcases List.mem_append.mp hid' with h1 | h1
            · rw [hframe' _ (hother id' h1)]; exact inv.claimSlot id' h1
            · simp only [List.mem_singleton] at h1; subst h1; exact hslotC
          releaseSlot := by
            intro id' hid'
            rcases List.mem_append.mp hid' with h1 | h1
            · rw [hframe' _ (hother id' h1)]; exact inv.releaseSlot id' h1
            · simp only [List.mem_singleton] at h1; subst h1; exact hslotR
          queue := hq'.trans inv.queue
          grantIndex := hg'.trans inv.grantIndex
          ir := hir'.trans inv.ir
          selector := hsel' }
      have := ih (pre ++ [id]) _ inv' (fun x hx => hne' x (by simp [hx])) (by simpa [List.append_assoc] using hnd')
      simpa [List.append_assoc] using this
  have inv0 : RegInv w0 w0 p mc.claimEvent mc.releaseEvent
      (.mcClaim p.target mc.claimEvent.name psC (formalNames mc.claimEvent) (CppGen.Fqn.str { ids := mc.grant, root := true }))
      (.mcRelease p.target mc.releaseEvent.name mc.releaseEvent.name psR (formalNames mc.releaseEvent)) [] :=
    { frame := fun _ _ => rfl
      claimSlot := fun id h => (by cases h)
      releaseSlot := fun id h => (by cases h)
      queue := rfl
      grantIndex := rfl
      ir := rfl
      selector := hs0 }
  have := key ids [] w0 inv0 hids (by simpa using hnd)
  simpa using this


/-! ### at the level of `Builder.build` -/

theorem forIn_each_ok {α β} (l : List α) (f : α → β → R (ForInStep β)) (s r : β)
    (hy : ∀ a s x, f a s = .ok x → ∃ s', x = .yield s')
    (h : forIn l s f = .ok r) : ∀ a ∈ l, ∃ s0 x, f a s0 = .ok x := by
  induction l generalizing s with
  | nil => intro a ha; cases ha
  | cons b t ih =>
    rw [List.forIn_cons] at h
    simp only [bind, Except.bind] at h
    split at h
    · cases h
    · rename_i x hx
      obtain ⟨s', rfl⟩ := hy b s x hx
      simp only at h
      intro a ha
      rcases List.mem_cons.mp ha with rfl | ha'
      · exact ⟨s, _, hx⟩
      · exact ih s' h a ha'

/-- a successful `create_cpp_port_helpers` has produced the `InitializePort` body of every multi-client port -/
theorem createHelpers_each (fc : FC) (ps : List CppPortItf) (sfns : Ids) (sn : Str) (r : Helpers × List (Str × List Assign))
    (h : createHelpers fc ps sfns sn = .ok r) (p : CppPortItf) (hp : p ∈ ps) (mc : McFixture) (hmc : p.dzn.mc = some mc) :
    ∃ as, initializePortAssigns fc p mc = .ok as := by
  unfold createHelpers at h
  simp only [bind, Except.bind, pure, Except.pure] at h
  split at h
  · cases h
  · rename_i v hv
    obtain ⟨s0, x, hx⟩ := forIn_each_ok ps _ _ v (by
      intro a s x hx
      cases hm : a.dzn.mc with
      | none => simp only [hm] at hx; injection hx with hx; exact ⟨_, hx.symm⟩
      | some m =>
        simp only [hm] at hx
        split at hx
        · cases hx
        · injection hx with hx; exact ⟨_, hx.symm⟩) hv p hp
    simp only [hmc] at hx
    split at hx
    · cases hx
    · rename_i as has; exact ⟨as, has⟩

theorem build_initPort (fc : FC) (cfg : Config) (b : BuildResult) (h : build fc cfg = .ok b) :
    b.ir.initPort = b.ir.provides.flatMap (fun q => (initEntry fc q).toList) ∧
    ∀ p ∈ b.ir.provides, ∀ mc, p.dzn.mc = some mc → ∃ as, initializePortAssigns fc p mc = .ok as := by
  unfold build at h
  simp only [bind, Except.bind, pure, Except.pure] at h
  split at h
  · cases h
  rename_i s hs
  injection h with h
  subst h
  simp only
  unfold buildShell at hs
  simp only [bind, Except.bind, pure, Except.pure] at hs
  split at hs
  · cases hs
  split at hs
  · cases hs
  split at hs
  · cases hs
  split at hs
  · cases hs
  split at hs
  · cases hs
  split at hs
  · cases hs
  split at hs
  · cases hs
  rename_i hl hhl
  split at hs
  · cases hs
  injection hs with hs
  subst hs
  obtain ⟨hlp, inits⟩ := hl
  exact ⟨createHelpers_inits fc _ _ _ hlp inits hhl, fun p hp mc hmc => createHelpers_each fc _ _ _ _ hhl p hp mc hmc⟩


theorem initEntry_of (fc : FC) (p : CppPortItf) (mc : McFixture) (as : List Assign)
    (hmc : p.dzn.mc = some mc) (has : initializePortAssigns fc p mc = .ok as) :
    initEntry fc p = some (p.name, as) := by
  unfold initEntry; simp [hmc, has]

/-- **C04 at the level of `Builder.build`**: for every model and configuration the builder accepts
    with a multi-client port `p`, in the shell constructed from the generated wiring and with any
    clients `ids` registered (`ProvidesMultiClient<Port>(id)` for each), the wiring the history
    theorems need (`McWired`) is in place, nothing is pending and nobody is selected.  Hence
    `history_refines`, `history_delivery` and `history_holder` apply to every such shell.
    Hypotheses: Dezyne's well-formedness rules (claim and release are in-events with names unique in
    the interface, formal names unique), no boundary-member collision (K-2), unique port names. -/
theorem build_mc_wired (fc : FC) (cfg : Config) (b : BuildResult) (h : build fc cfg = .ok b)
    (p : CppPortItf) (hp : p ∈ b.ir.provides) (hsem : p.dzn.sem = .mts) (mc : McFixture) (hmc : p.dzn.mc = some mc)
    (hcl : mc.claimEvent ∈ inEvents p.dzn.itf) (hrl : mc.releaseEvent ∈ inEvents p.dzn.itf)
    (hne : mc.releaseEvent.name ≠ mc.claimEvent.name) (hnv : isVoid mc.claimEvent = false)
    (hevuC : ∀ e ∈ p.dzn.itf.events, e.name = mc.claimEvent.name → evDirOf e = .in_ → e = mc.claimEvent)
    (hevuR : ∀ e ∈ p.dzn.itf.events, e.name = mc.releaseEvent.name → evDirOf e = .in_ → e = mc.releaseEvent)
    (hndC : (mc.claimEvent.formals.map (·.name)).Nodup) (hndR : (mc.releaseEvent.formals.map (·.name)).Nodup)
    (hinj : ∀ q ∈ b.ir.provides ++ b.ir.requires, q.target = p.target → q = p)
    (hninj : ∀ q ∈ b.ir.provides, q.name = p.name → q = p)
    (hnames : ∀ q ∈ b.ir.requires, q.name ≠ p.name)
    (hu : C01.UniqueEvents b.allPorts)
    (pump runtime : Bool) (name : Str) (extra : Bool)
    (w0 : World) (hw0 : construct b.ir b.allPorts b.grantIndex pump runtime none name extra = .ok w0)
    (ids : List Str) (hids : ∀ id ∈ ids, id ≠ []) (hnd : ids.Nodup) :
    let w := ids.foldl (fun w id => (registerClient w p id).1) w0
    ∃ psC psR,
      psC.map (·.name) = mc.claimEvent.formals.map (·.name) ∧ psR.map (·.name) = mc.releaseEvent.formals.map (·.name) ∧
      McWired w p.target p.name mc.claimEvent mc.releaseEvent psC psC psR psR
        (inFormalNames mc.claimEvent) (inFormalNames mc.releaseEvent)
        (CppGen.Fqn.str { ids := mc.grant, root := true }) ids ∧
      w.queue = [] ∧ w.grantIndex = b.grantIndex ∧
      w.selector p.target = some { mv := p.target, port := p.name, clients := ids } := by
  have hisMc : p.isMc = true := by simp [CppPortItf.isMc, hmc]
  obtain ⟨enc, de, pp, rp, ctor, sn, fac, sfns, hde, hpp, hrp, hcc, e1, e2, e5⟩ := C01.build_inv fc cfg b h
  obtain ⟨hinit, hall⟩ := build_initPort fc cfg b h
  obtain ⟨as, has⟩ := hall p hp mc hmc
  obtain ⟨hallp, hprov, _⟩ := C01.elements_in_allPorts cfg fc enc de hde
  have hp' : p ∈ pp := e1 ▸ hp
  obtain ⟨d, hd, hcp⟩ := C01.mapM_mem _ _ _ hpp p hp'
  have hdz := C01.createCppPortItf_dzn d _ _ p hcp
  have hpa : (p.dzn.port, p.dzn.itf) ∈ b.allPorts := by rw [e5, hdz]; exact hallp d (by simp [hd])
  have hdir : p.dzn.port.dir = .provides := by rw [hdz]; exact hprov d hd
  have hmts : p ∈ mtsPorts pp := List.mem_filter.mpr ⟨hp', by simp [hsem]⟩
  -- what the constructor established
  obtain ⟨psC, hpsC, hnmC, harbC, hcompC⟩ := generated_mc_in_slots fc sn fac pp rp sfns ctor b.ir.ctorAssigns hcc b.ir e1 e2 rfl
    p hmts hisMc mc.claimEvent hcl (by rw [← e1, ← e2]; exact hinj) (by rw [← e2]; exact hnames) hevuC
    b.allPorts hpa hu hdir b.grantIndex pump runtime name extra w0 hw0
  obtain ⟨psR, hpsR, hnmR, harbR, hcompR⟩ := generated_mc_in_slots fc sn fac pp rp sfns ctor b.ir.ctorAssigns hcc b.ir e1 e2 rfl
    p hmts hisMc mc.releaseEvent hrl (by rw [← e1, ← e2]; exact hinj) (by rw [← e2]; exact hnames) hevuR
    b.allPorts hpa hu hdir b.grantIndex pump runtime name extra w0 hw0
  -- facts about the constructed world
  have hcchk : ctorCheck b.ir pump runtime = none := by
    unfold construct at hw0
    split at hw0
    · cases hw0
    · assumption
  have hw0' := C01.construct_ok b.ir b.allPorts b.grantIndex pump runtime name extra hcchk
  rw [hw0] at hw0'
  injection hw0' with hw0e
  have hir0 : w0.ir = b.ir := by rw [hw0e, C01.runAssigns_ir]; exact (C01.compBind_fields _ none).1
  have hq0 : w0.queue = [] := by rw [hw0e, C01.runAssigns_queue]; exact (C01.compBind_fields _ none).2.1
  have hg0 : w0.grantIndex = b.grantIndex := by
    rw [hw0e]
    have : ∀ (w1 : World) (l : List Assign) (a c : Str) (i : Option InterfaceD), (runAssigns w1 l a c i).grantIndex = w1.grantIndex := by
      intro w1 l a c i
      induction l generalizing w1 with
      | nil => rfl
      | cons x r ih => rw [C01.runAssigns_cons, ih]; split <;> rfl
    rw [this]
    have hcb : ∀ (w1 : World), (compBind w1 none).grantIndex = w1.grantIndex := by
      intro w1
      rw [C01.compBind_eq]
      apply C01.compBind_induction (fun w' => w'.grantIndex = w1.grantIndex)
      · rfl
      · intro w' q itf ev _ _ hh
        unfold C01.compWrite
        simp only
        split
        · split <;> exact hh
        · split <;> exact hh
    show (C01.bodyWorld b.ir b.allPorts b.grantIndex pump runtime name extra).grantIndex = b.grantIndex
    exact hcb _
  have hs0 := construct_selector b.ir b.allPorts b.grantIndex pump runtime name extra w0 hw0 p hp hisMc
    (fun q hq hqt => hinj q (by simp [hq]) hqt)
  have hia : initAssigns w0.ir p = as := by
    unfold initAssigns
    rw [hir0, hinit, initPort_find fc b.ir.provides p as hp (initEntry_of fc p mc as hmc has) hninj]
    rfl
  obtain ⟨psC', psR', hpsC', hpsR', inv⟩ := register_all fc p mc as has hcl hrl hne hevuC hevuR w0 hia hs0 ids hids hnd
  have eC : psC' = psC := by rw [hpsC] at hpsC'; injection hpsC' with e; exact e.symm
  have eR : psR' = psR := by rw [hpsR] at hpsR'; injection hpsR' with e; exact e.symm
  subst eC; subst eR
  simp only
  refine ⟨psC', psR', hnmC, hnmR, ?_, inv.queue.trans hq0, inv.grantIndex.trans hg0, inv.selector⟩
  have hfn : ∀ (e : Event) (ps : List LParam), ps.map (·.name) = e.formals.map (·.name) → formalNames e = ps.map (·.name) := by
    intro e ps hh; simp [formalNames, hh]
  have harbk : ∀ k : RSlot, (∀ id ∈ ids, k.obj ≠ RObj.client p.target id) →
      (ids.foldl (fun w id => (registerClient w p id).1) w0).get k = w0.get k := inv.frame
  exact {
    clClaim := by
      intro id hid
      rw [inv.claimSlot id hid, hfn _ _ hnmC]
    arbClaim := by
      rw [harbk _ (by intro id _ e; cases e)]; exact harbC
    compClaim := by
      rw [harbk _ (by intro id _ e; cases e)]; exact hcompC
    clRelease := by
      intro id hid
      rw [inv.releaseSlot id hid, hfn _ _ hnmR]
    arbRelease := by
      rw [harbk _ (by intro id _ e; cases e)]; exact harbR
    compRelease := by
      rw [harbk _ (by intro id _ e; cases e)]; exact hcompR
    claimValued := hnv
    ndC := by rw [hnmC]; exact hndC
    ndA := by rw [hnmC]; exact hndC
    ndR := by rw [hnmR]; exact hndR
    ndB := by rw [hnmR]; exact hndR
    lenA := rfl
    lenB := rfl }


/-- the number of arguments a client operation passes, against the events' declared parameters -/
def ClientOp.arity (claim release : Event) : ClientOp → Prop
  | .claim _ _ args => claim.formals.length = args.length
  | .release _ args => release.formals.length = args.length

/-- **C04 for every accepted model and configuration** (partial: histories without a release by a
    non-holder, finding D-9): in the shell `Builder.build` generates, with any clients registered,
    after any history of claims and releases — executed through the generated per-client
    wrappers, each claim answered by the component with an arbitrary reply — the shell's selected
    client is the client whose most recent claim was answered with the granting reply and who has
    not released since; and (`history_delivery`) an out-event is observed by exactly that client. -/
theorem build_history_holder (fc : FC) (cfg : Config) (b : BuildResult) (h : build fc cfg = .ok b)
    (p : CppPortItf) (hp : p ∈ b.ir.provides) (hsem : p.dzn.sem = .mts) (mc : McFixture) (hmc : p.dzn.mc = some mc)
    (hcl : mc.claimEvent ∈ inEvents p.dzn.itf) (hrl : mc.releaseEvent ∈ inEvents p.dzn.itf)
    (hne : mc.releaseEvent.name ≠ mc.claimEvent.name) (hnv : isVoid mc.claimEvent = false)
    (hevuC : ∀ e ∈ p.dzn.itf.events, e.name = mc.claimEvent.name → evDirOf e = .in_ → e = mc.claimEvent)
    (hevuR : ∀ e ∈ p.dzn.itf.events, e.name = mc.releaseEvent.name → evDirOf e = .in_ → e = mc.releaseEvent)
    (hndC : (mc.claimEvent.formals.map (·.name)).Nodup) (hndR : (mc.releaseEvent.formals.map (·.name)).Nodup)
    (hinj : ∀ q ∈ b.ir.provides ++ b.ir.requires, q.target = p.target → q = p)
    (hninj : ∀ q ∈ b.ir.provides, q.name = p.name → q = p)
    (hnames : ∀ q ∈ b.ir.requires, q.name ≠ p.name)
    (hu : C01.UniqueEvents b.allPorts)
    (pump runtime : Bool) (name : Str) (extra : Bool)
    (w0 : World) (hw0 : construct b.ir b.allPorts b.grantIndex pump runtime none name extra = .ok w0)
    (ids : List Str) (hids : ∀ id ∈ ids, id ≠ []) (hnd : ids.Nodup)
    (gi : Nat) (hgi : b.grantIndex = some gi)
    (n : Nat) (ops : List ClientOp) (hops : ∀ op ∈ ops, op.id ∈ ids)
    (hargs : ∀ op ∈ ops, op.arity mc.claimEvent mc.releaseEvent)
    (hnf : NoForeignRelease none (ops.map (ClientOp.abs gi))) :
    let w := ids.foldl (fun w id => (registerClient w p id).1) w0
    ∃ s', (ops.foldl (runOp n p.target p.name mc.claimEvent mc.releaseEvent) w).selector p.target = some s' ∧
      s'.selected = (ops.map (ClientOp.abs gi)).foldl specStep none := by
  obtain ⟨psC, psR, hnC, hnR, hw, hq, hg, hs⟩ := build_mc_wired fc cfg b h p hp hsem mc hmc hcl hrl hne hnv hevuC hevuR hndC hndR
    hinj hninj hnames hu pump runtime name extra w0 hw0 ids hids hnd
  simp only at hw hq hg hs ⊢
  have hlC : psC.length = mc.claimEvent.formals.length := by
    have := congrArg List.length hnC; simpa using this
  have hlR : psR.length = mc.releaseEvent.formals.length := by
    have := congrArg List.length hnR; simpa using this
  exact history_holder n p.target p.name mc.claimEvent mc.releaseEvent psC psC psR psR _ _ _ ids gi ops _
    { mv := p.target, port := p.name, clients := ids } hw hq (by rw [hg]; exact hgi) hs hops
    (by
      intro op hop
      have := hargs op hop
      cases op with
      | claim id v args => simp only [ClientOp.argsOk, ClientOp.arity] at this ⊢; rw [hlC]; exact this
      | release id args => simp only [ClientOp.argsOk, ClientOp.arity] at this ⊢; rw [hlR]; exact this)
    (fun op hop => hops op hop) hnf

end C04
