/-
  C07 — Names in generated code denote the declaration Dezyne's scoping rules select.
  (property theorems)
  `Spec.denoted` is the specification: the declarations whose fully qualified name lies on the scope
  chain of the referring scope (C14 proves `find_fqn` computes exactly that).  Here: what the build
  does with a written port type / formal type is governed by `denoted` alone — exactly one candidate
  of the right kind is used, anything else is a lookup error — and this holds for every exposed port
  of every successful build.
-/
import DznModel
import DznProofs.C14
import DznProofs.C13
open Py Text Scoping Ast AstView PortSel CppGen Support Shell

namespace C07

theorem getSingle_ok_iff (l : List Decl) (p : Decl → Bool) (d : Decl) :
    getSingle l (some p) = .ok d ↔ l = [d] ∧ p d = true := by
  unfold getSingle
  split
  · simp
  · rename_i x
    simp only []
    split
    · constructor
      · intro h; injection h with h; subst h; exact ⟨rfl, by assumption⟩
      · rintro ⟨h, _⟩; injection h with h; subst h; rfl
    · constructor
      · intro h; cases h
      · rintro ⟨h, hp⟩; injection h with h; subst h; simp_all
  · rename_i h1 h2
    constructor
    · intro h; cases h
    · rintro ⟨h, _⟩; subst h; exact absurd rfl (h2 d)

theorem getSingle_err (l : List Decl) (w : Option (Decl → Bool)) (e : PyErr) (h : getSingle l w = .error e) :
    e = .lib .FindError := by
  unfold getSingle at h
  split at h
  · injection h with h; exact h.symm
  · split at h
    · cases h
    · split at h
      · cases h
      · injection h with h; exact h.symm
  · injection h with h; exact h.symm

/-- **C07 (port type)**: the lookup of a port's written type name succeeds with interface `i`
    exactly when `i` is the one and only declaration the name denotes from the referring scope and
    it is an interface -/
theorem port_type_is_the_denoted_interface (fc : FC) (scope : Ids) (p : Port) (i : InterfaceD) :
    getSingle (findFqn fc p.typeName scope) (some isInterface) = .ok (.interface i) ↔
      Spec.portInterface fc scope p = some i := by
  rw [getSingle_ok_iff, C14.find_fqn_spec]
  unfold Spec.portInterface Spec.denoted
  constructor
  · rintro ⟨h, _⟩; rw [h]
  · intro h
    split at h
    · rename_i j hj; injection h with h; subst h; exact ⟨hj, rfl⟩
    · cases h

/-- … and in every other case — no candidate, several candidates along the chain, or a single
    candidate of another kind — the lookup fails with the lookup error instead of picking one -/
theorem port_lookup_errors (fc : FC) (scope : Ids) (p : Port) (h : Spec.portInterface fc scope p = none) :
    (getSingle (findFqn fc p.typeName scope) (some isInterface) = .error (.lib .FindError)) ∨
    (∃ d, getSingle (findFqn fc p.typeName scope) (some isInterface) = .ok d ∧ isInterface d = true ∧ False) := by
  left
  cases hg : getSingle (findFqn fc p.typeName scope) (some isInterface) with
  | error e => rw [getSingle_err _ _ _ hg]
  | ok d =>
    have := (getSingle_ok_iff _ _ _).mp hg
    cases d with
    | interface i =>
      rw [(port_type_is_the_denoted_interface fc scope p i).mp hg] at h; cases h
    | _ => simp [isInterface] at this

theorem port_lookup_error (fc : FC) (scope : Ids) (p : Port) (h : Spec.portInterface fc scope p = none) :
    getSingle (findFqn fc p.typeName scope) (some isInterface) = .error (.lib .FindError) := by
  rcases port_lookup_errors fc scope p h with h | ⟨_, _, _, hf⟩
  · exact h
  · exact hf.elim

/-- **C07 (formal type)**: the C++ data type of an event parameter is the `$value$` of the one and
    only declaration its written type denotes from the interface's own scope, which must be an
    extern -/
theorem formal_type_is_the_denoted_extern (fc : FC) (itf : InterfaceD) (f : Formal) (v : Str) :
    formalCType fc itf f = .ok v ↔ Spec.formalType fc itf f = some v := by
  unfold formalCType Spec.formalType Spec.denoted
  rw [C14.find_fqn_spec]
  simp only [bind, Except.bind, pure, Except.pure]
  constructor
  · intro h
    split at h
    · cases h
    · rename_i d hd
      have := (getSingle_ok_iff _ _ _).mp hd
      split at h
      · rename_i e
        injection h with h; subst h
        rw [this.1]
      · cases h
  · intro h
    split at h
    · rename_i e he
      injection h with h; subst h
      have : getSingle (Spec.findFqnSpec fc f.typeName itf.fqn) (some isExtern) = .ok (.extern e) :=
        (getSingle_ok_iff _ _ _).mpr ⟨he, rfl⟩
      rw [this]
    · cases h

theorem formal_lookup_error (fc : FC) (itf : InterfaceD) (f : Formal) (h : Spec.formalType fc itf f = none) :
    formalCType fc itf f = .error (.lib .FindError) := by
  cases hg : formalCType fc itf f with
  | ok v => rw [(formal_type_is_the_denoted_extern fc itf f v).mp hg] at h; cases h
  | error e =>
    unfold formalCType at hg
    simp only [bind, Except.bind, pure, Except.pure] at hg
    split at hg
    · rename_i e' he; injection hg with hg; subst hg; rw [getSingle_err _ _ _ he]
    · split at hg
      · cases hg
      · injection hg with hg; rw [← hg]

/-- every lambda parameter list the shell emits carries, position by position, the denoted types -/
theorem lambda_params_typed (fc : FC) (itf : InterfaceD) (ev : Event) (refs : Bool) (ps : List LParam)
    (h : lambdaParamsOf fc itf ev refs = .ok ps) :
    ps.map (fun p => some p.ctype) = ev.formals.map (Spec.formalType fc itf) := by
  unfold lambdaParamsOf at h
  generalize ev.formals = fs at h
  induction fs generalizing ps with
  | nil => simp [List.mapM_nil, pure, Except.pure] at h; subst h; rfl
  | cons f t ih =>
    rw [List.mapM_cons] at h
    simp only [bind, Except.bind, pure, Except.pure] at h
    split at h
    · cases h
    · rename_i lp hlp
      split at h
      · cases h
      · rename_i rest hrest
        injection h with h; subst h
        split at hlp
        · cases hlp
        · rename_i ct hct
          injection hlp with hlp; subst hlp
          simp only [List.map_cons]
          rw [ih rest hrest, (formal_type_is_the_denoted_extern fc itf f ct).mp hct]

/-! ### through the build -/

/-- every exposed port descriptor carries the interface its written type denotes -/
def Denoting (fc : FC) (scope : Ids) (acc : List DznPortItf × List DznPortItf) : Prop :=
  (∀ d ∈ acc.1, Spec.portInterface fc scope d.port = some d.itf) ∧
  (∀ d ∈ acc.2, Spec.portInterface fc scope d.port = some d.itf)

theorem mkDznPortItf_eq (p i s mc d) (h : mkDznPortItf p i s mc = .ok d) : d.port = p ∧ d.itf = i := by
  unfold mkDznPortItf at h; split at h
  · cases h
  · injection h with h; subst h; exact ⟨rfl, rfl⟩

theorem denoting_snoc1 (fc scope acc) (d : DznPortItf) (hacc : Denoting fc scope acc)
    (hd : Spec.portInterface fc scope d.port = some d.itf) : Denoting fc scope (acc.1 ++ [d], acc.2) := by
  refine ⟨fun x hx => ?_, hacc.2⟩
  rcases List.mem_append.mp hx with hx | hx
  · exact hacc.1 x hx
  · simp at hx; subst hx; exact hd

theorem denoting_snoc2 (fc scope acc) (d : DznPortItf) (hacc : Denoting fc scope acc)
    (hd : Spec.portInterface fc scope d.port = some d.itf) : Denoting fc scope (acc.1, acc.2 ++ [d]) := by
  refine ⟨hacc.1, fun x hx => ?_⟩
  rcases List.mem_append.mp hx with hx | hx
  · exact hacc.2 x hx
  · simp at hx; subst hx; exact hd

theorem processPort_denoting (cfg fc scope sems acc port r) (hacc : Denoting fc scope acc)
    (h : processPort cfg fc scope sems acc port = .ok r) : Denoting fc scope r := by
  unfold processPort at h
  simp only [bind, Except.bind, pure, Except.pure] at h
  split at h
  · cases h
  rename_i dd hdd
  split at h
  · rename_i itf
    have hi := (port_type_is_the_denoted_interface fc scope port itf).mp hdd
    split at h
    · split at h
      · cases h
      split at h
      · cases h
      split at h
      · cases h
      · rename_i d hd
        injection h with h; subst h
        obtain ⟨e1, e2⟩ := mkDznPortItf_eq _ _ _ _ _ hd
        exact denoting_snoc1 _ _ _ _ hacc (by rw [e1, e2]; exact hi)
    · split at h
      · split at h
        · cases h
        split at h
        · cases h
        · rename_i d hd
          injection h with h; subst h
          obtain ⟨e1, e2⟩ := mkDznPortItf_eq _ _ _ _ _ hd
          exact denoting_snoc2 _ _ _ _ hacc (by rw [e1, e2]; exact hi)
      · injection h with h; subst h; exact hacc
  · cases h

theorem foldlM_denoting (cfg fc scope sems) (l : List Port) (acc r) (hacc : Denoting fc scope acc)
    (h : l.foldlM (processPort cfg fc scope sems) acc = .ok r) : Denoting fc scope r := by
  induction l generalizing acc with
  | nil => simp [List.foldlM_nil, pure, Except.pure] at h; subst h; exact hacc
  | cons a t ih =>
    rw [List.foldlM_cons] at h
    simp only [bind, Except.bind] at h
    split at h
    · cases h
    · rename_i acc' ha
      exact ih acc' (processPort_denoting _ _ _ _ _ _ _ hacc ha) h

/-- **C07 (every exposed port)**: in the result of `create_dzn_elements` every provides and every
    requires port descriptor carries exactly the interface its written type name denotes from the
    encapsulee's parent scope -/
theorem elements_denote (cfg fc enc de) (h : createDznElements cfg fc enc = .ok de) :
    ∀ d ∈ de.provides ++ de.requires, Spec.portInterface fc enc.parent.fqn d.port = some d.itf := by
  unfold createDznElements at h
  simp only [bind, Except.bind, pure, Except.pure] at h
  repeat (split at h <;> try (cases h; done))
  injection h with h; subst h
  rename_i r hr _
  have := foldlM_denoting _ _ _ _ (Decl.ports enc) _ r ⟨by simp, by simp⟩ hr
  rename_i pp rp _ _
  intro d hd
  simp only [List.mem_append] at hd
  rcases hd with hd | hd
  · exact this.1 d (by simp_all)
  · exact this.2 d (by simp_all)

/-- an unresolvable, ambiguous or wrong-kind port type makes `create_dzn_elements` fail — whatever
    the other ports are and wherever the port stands -/
theorem foldlM_fails (cfg fc scope sems) (l : List Port) (acc)
    (hbad : ∃ p ∈ l, Spec.portInterface fc scope p = none) :
    ∃ e, l.foldlM (processPort cfg fc scope sems) acc = .error e := by
  induction l generalizing acc with
  | nil => obtain ⟨p, hp, _⟩ := hbad; simp at hp
  | cons a t ih =>
    rw [List.foldlM_cons]
    cases ha : processPort cfg fc scope sems acc a with
    | error e => exact ⟨e, rfl⟩
    | ok acc' =>
      simp only [bind, Except.bind]
      obtain ⟨p, hp, hn⟩ := hbad
      rcases List.mem_cons.mp hp with rfl | hp
      · exfalso
        unfold processPort at ha
        rw [port_lookup_error fc scope p hn] at ha
        simp [bind, Except.bind] at ha
      · exact ih acc' ⟨p, hp, hn⟩

theorem lookup_errors (cfg fc enc) (hbad : ∃ p ∈ Decl.ports enc, Spec.portInterface fc enc.parent.fqn p = none) :
    ∀ de, createDznElements cfg fc enc ≠ .ok de := by
  intro de h
  unfold createDznElements at h
  simp only [bind, Except.bind, pure, Except.pure] at h
  split at h
  · cases h
  split at h
  · cases h
  rename_i sems _
  obtain ⟨e, he⟩ := foldlM_fails cfg fc enc.parent.fqn sems (Decl.ports enc) ([], []) hbad
  rw [he] at h
  cases h

/-! ### same-named declarations in unrelated namespaces never influence the result -/

theorem filter_unrelated {α} (p : α → Bool) (l : List α) (x : α) (h : p x = false) :
    (l ++ [x]).filter p = l.filter p := by
  simp [List.filter_append, h]

/-- adding a declaration (of any of the kinds that share simple names: interface, extern, enum)
    whose fully qualified name is not on the scope chain changes nothing about what a name denotes -/
theorem unrelated_declarations_irrelevant (fc : FC) (name scope : Ids) :
    (∀ x : ExternD, x.fqn ∉ Spec.chain name scope →
      Spec.denoted { fc with externs := fc.externs ++ [x] } name scope = Spec.denoted fc name scope) ∧
    (∀ x : InterfaceD, x.fqn ∉ Spec.chain name scope →
      Spec.denoted { fc with interfaces := fc.interfaces ++ [x] } name scope = Spec.denoted fc name scope) ∧
    (∀ x : EnumD, x.fqn ∉ Spec.chain name scope →
      Spec.denoted { fc with enums := fc.enums ++ [x] } name scope = Spec.denoted fc name scope) := by
  refine ⟨?_, ?_, ?_⟩ <;>
  · intro x hx
    simp [Spec.denoted, Spec.findFqnSpec, FC.decls, List.filter_append, Decl.fqn, hx]

/-- … whereas a declaration *on* the chain does: a second candidate makes the reference ambiguous
    and the lookup fails (it is not resolved by proximity) -/
theorem second_candidate_is_an_error (fc : FC) (scope : Ids) (p : Port) (a b : Decl) (rest : List Decl)
    (h : Spec.denoted fc p.typeName scope = a :: b :: rest) :
    getSingle (findFqn fc p.typeName scope) (some isInterface) = .error (.lib .FindError) := by
  apply port_lookup_error
  unfold Spec.portInterface
  rw [h]
  cases a <;> rfl

end C07
