/-
  C03 (build-level clauses) — what the port selection means for the build: every exposed port of a
  successful build carries exactly the semantics the configuration selects for its name (and there
  is a descriptor for every exposed port and for no other), an exposed port without semantics or a
  rejected selection makes the build fail (`C13.uncovered_port`, `C13.selection_rejected`), and
  injected requires ports never need a semantics.
-/
import DznModel
import DznProofs.C03
import DznProofs.C13Invalid
open Py Text Scoping Ast AstView PortSel CppGen Support Shell

namespace C03

def SemFrom (sems : List (Str × Sem)) (acc : List DznPortItf × List DznPortItf) : Prop :=
  ∀ d ∈ acc.1 ++ acc.2, sems.lookup d.port.name = some d.sem

theorem mkDznPortItf_sem (p i s mc d) (h : mkDznPortItf p i s mc = .ok d) : d.port = p ∧ d.sem = s := by
  unfold mkDznPortItf at h; split at h
  · cases h
  · injection h with h; subst h; exact ⟨rfl, rfl⟩

theorem processPort_sem (cfg fc scope sems acc port r) (hacc : SemFrom sems acc)
    (h : processPort cfg fc scope sems acc port = .ok r) : SemFrom sems r := by
  unfold processPort at h
  simp only [bind, Except.bind, pure, Except.pure] at h
  split at h
  · cases h
  split at h
  · split at h
    · split at h
      · cases h
      split at h
      · cases h
      rename_i s hs
      split at h
      · cases h
      · rename_i d hd
        injection h with h; subst h
        obtain ⟨e1, e2⟩ := mkDznPortItf_sem _ _ _ _ _ hd
        intro x hx
        simp only [List.mem_append, List.mem_singleton] at hx
        rcases hx with (hx | hx) | hx
        · exact hacc x (by simp [hx])
        · subst hx; rw [e1, e2]; exact hs
        · exact hacc x (by simp [hx])
    · split at h
      · split at h
        · cases h
        rename_i s hs
        split at h
        · cases h
        · rename_i d hd
          injection h with h; subst h
          obtain ⟨e1, e2⟩ := mkDznPortItf_sem _ _ _ _ _ hd
          intro x hx
          simp only [List.mem_append, List.mem_singleton] at hx
          rcases hx with hx | hx | hx
          · exact hacc x (by simp [hx])
          · exact hacc x (by simp [hx])
          · subst hx; rw [e1, e2]; exact hs
      · injection h with h; subst h; exact hacc
  · cases h

theorem foldlM_sem (cfg fc scope sems) (l : List Port) (acc r) (hacc : SemFrom sems acc)
    (h : l.foldlM (processPort cfg fc scope sems) acc = .ok r) : SemFrom sems r := by
  induction l generalizing acc with
  | nil => simp [List.foldlM_nil, pure, Except.pure] at h; subst h; exact hacc
  | cons a t ih =>
    rw [List.foldlM_cons] at h
    simp only [bind, Except.bind] at h
    split at h
    · cases h
    · rename_i acc' ha
      exact ih acc' (processPort_sem _ _ _ _ _ _ _ hacc ha) h

/-- **C03 (through the build)**: every exposed port descriptor of a successful
    `create_dzn_elements` carries exactly the semantics the matched configuration assigns to the
    port's name — `Spec.sideSem`: the explicitly naming side first, else the covering wildcard -/
theorem exposed_port_semantics (cfg fc enc de) (h : createDznElements cfg fc enc = .ok de) :
    ∃ sems, cfg.ports.matchAll (C13.provNames enc) (C13.reqNames enc) = .ok sems ∧
      ∀ d ∈ de.provides ++ de.requires, sems.lookup d.port.name = some d.sem := by
  unfold createDznElements at h
  simp only [bind, Except.bind, pure, Except.pure] at h
  split at h
  · cases h
  split at h
  · cases h
  rename_i sems hsems
  split at h
  · cases h
  rename_i r hr
  split at h
  · cases h
  · injection h with h; subst h
    exact ⟨sems, hsems, foldlM_sem _ _ _ _ _ _ r (by intro d hd; simp at hd) hr⟩

/-- **injected requires ports never need a semantics**: the per-port step leaves the accumulated
    descriptors untouched and succeeds, whatever the matched dictionary says about the name -/
theorem injected_needs_no_semantics (cfg fc scope sems acc) (p : Port) (i : InterfaceD)
    (hd : p.dir = .requires) (hinj : p.injected = true)
    (hi : Spec.portInterface fc scope p = some i) :
    processPort cfg fc scope sems acc p = .ok acc := by
  have hgs := (C07.port_type_is_the_denoted_interface fc scope p i).mpr hi
  unfold processPort
  simp [hgs, bind, Except.bind, pure, Except.pure, hd, hinj]

end C03
