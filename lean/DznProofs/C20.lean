/-
  C20 — C++ building blocks render matching declarations and definitions.  (**partial**)
  Proved: the structural relation between the rendered declaration and definition, and the
  balance of namespace/struct blocks, for every descriptor.  Not provable here: acceptance by a
  C++ compiler (sampled by the check as model validation).
-/
import DznModel
import DznProofs.Lemmas.Text
import DznProofs.C17
open Py Text Scoping CppGen Lem

namespace C20

/-- a parameter's declaration is its definition, plus ` = default` when (and only when) a
    non-empty default value is given: same type, same name -/
theorem param_decl_is_def_plus_default (p : Param) :
    p.asDecl = p.asDef ∨ ∃ d, d ≠ [] ∧ p.ty.dflt = some d ∧ p.asDecl = p.asDef ++ L " = " ++ d := by
  unfold Param.asDecl
  cases hd : p.ty.dflt with
  | none => exact Or.inl rfl
  | some d =>
    by_cases he : d = []
    · subst he; exact Or.inl rfl
    · right; exact ⟨d, he, rfl, by simp [he]⟩

/-- pouring one break-free, non-empty line into a text block and printing it adds one newline -/
theorem tbOfStr_line (s : Str) (hne : s ≠ []) (hb : Spec.breakFree s = true) :
    tbOfStr s = s ++ ['\n'] := by
  unfold tbOfStr
  rw [C17.str_spec]
  simp only [TB.mk', truthy, contentLines, flatten, Bool.false_and, Bool.false_eq_true, if_false,
    List.flatMap_cons, List.flatMap_nil, List.append_nil, itemLines_breakFree s hb]
  simp [Spec.strSpec]

/-- **declaration shape**: prefix, return type, name, the parameters *as declarations* in order,
    const qualification, `override`, ` = init`, `;` -/
theorem decl_shape (f : Function) (hb : Spec.breakFree f.declText = true) :
    f.asDecl = f.pfx.str ++ f.ret.str ++ L " " ++ f.name ++ L "(" ++
      join (L ", ") (f.params.map Param.asDecl) ++ L ")" ++
      (if f.cav.isEmpty then [] else L " " ++ f.cav) ++
      (if f.override then L " override" else []) ++
      (if f.init.isEmpty then [] else L " = " ++ f.init) ++ L ";" ++ ['\n'] := by
  unfold Function.asDecl
  rw [tbOfStr_line _ (by simp [Function.declText]) hb]
  rfl

/-- **definition shape** (empty body): the definition signature, ` {}` -/
theorem def_shape (f : Function) (hi : f.init = []) (hc : truthy f.contents = false)
    (hb : Spec.breakFree (f.defSig ++ L " {}") = true) :
    f.asDef = f.defSig ++ L " {}" ++ ['\n'] := by
  unfold Function.asDef
  simp only [hi, List.isEmpty_nil, Bool.not_true, Bool.false_eq_true, if_false, hc, Bool.not_false,
    if_true]
  exact tbOfStr_line _ (by simp) hb

/-- …where the definition signature is: return type, owner qualification, the *same* name, the
    parameters *as definitions* (no defaults) in the same order, the same const qualification -/
theorem defSig_shape (f : Function) :
    f.defSig = f.ret.str ++ L " " ++ (match f.scope with | some s => s ++ L "::" | none => []) ++
      f.name ++ L "(" ++ join (L ", ") (f.params.map Param.asDef) ++ L ")" ++
      (if f.cav.isEmpty then [] else L " " ++ f.cav) := rfl

def Param.stripDefault (p : Param) : Param := { p with ty := { p.ty with dflt := none } }

theorem asDef_stripDefault (p : Param) : (Param.stripDefault p).asDef = p.asDef := rfl

/-- default values, `virtual`/`static`, `override` never reach the definition -/
theorem def_ignores_decl_only_parts (f : Function) (x : FnPrefix) (o : Bool) :
    ({ f with pfx := x, override := o, params := f.params.map Param.stripDefault } : Function).asDef
      = f.asDef := by
  have : (f.params.map Param.stripDefault).map Param.asDef = f.params.map Param.asDef := by
    simp [List.map_map, Function.comp_def, asDef_stripDefault]
  simp only [Function.asDef, Function.defSig, paramsDef, this]

/-- no definition when the declaration is initialised (`= default`, `= 0`, `= delete`) -/
theorem initialised_no_def (f : Function) (h : f.init ≠ []) : f.asDef = [] := by
  simp [Function.asDef, h]

theorem constructor_def_ignores_decl_only_parts (c : Constructor) (e : Bool) :
    ({ c with «explicit» := e, params := c.params.map Param.stripDefault } : Constructor).asDef = c.asDef := by
  have : (c.params.map Param.stripDefault).map Param.asDef = c.params.map Param.asDef := by
    simp [List.map_map, Function.comp_def, asDef_stripDefault]
  simp only [Constructor.asDef, Constructor.defSig, paramsDef, this]

theorem destructor_initialised_no_def (d : Destructor) (h : d.init ≠ []) : d.asDef = [] := by
  simp [Destructor.asDef, h]

/-- the lines of a rendered block: `splitlines (str(TB [..]))` for well-formed content is the
    depth-first pieces (C17) — specialised to opener / contents / closer -/
theorem block_lines (opener closer : Str) (t : TB)
    (ho : Spec.breakFree opener = true) (hc : Spec.breakFree closer = true)
    (hno : opener ≠ []) (hnc : closer ≠ [])
    (ht : ∀ l ∈ t.header ++ t.lines, Spec.breakFree l = true) :
    (TB.mk' (.list [.str opener, t.asContent, .str closer])).lines
      = [opener] ++ (t.header ++ t.lines) ++ [closer] := by
  have hwf : Spec.wfContent (.list [.str opener, t.asContent, .str closer]) = true := by
    simp only [Spec.wfContent, Spec.wfContentL, TB.asContent, Bool.and_true, Bool.true_and,
      Bool.and_eq_true, List.all_eq_true]
    exact ⟨fun l hl => ht l (by simp [hl]), fun l hl => ht l (by simp [hl])⟩
  have := C17.lines_eq_pieces _ hwf
  simp only [TB.mk', truthy, Bool.false_eq_true, if_false] at this ⊢
  rw [this]
  simp only [Spec.piecesTop, Spec.pieces, Spec.piecesL, TB.asContent, Spec.strPieces, List.append_nil]
  have e1 : opener.isEmpty = false := by cases opener <;> simp_all
  have e2 : closer.isEmpty = false := by cases closer <;> simp_all
  simp only [e1, e2, Bool.false_eq_true, if_false,
    splitlines_single opener hno ho, splitlines_single closer hnc hc]
  simp

theorem bf3 (a b c : Str) (ha : Spec.breakFree a = true) (hb : Spec.breakFree b = true)
    (hc : Spec.breakFree c = true) : Spec.breakFree (a ++ b ++ c) = true := by
  simp [breakFree_append, ha, hb, hc]

/-- **namespaces render balanced**: opener naming the namespace, unchanged contents, matching
    closer (for non-empty contents); one line `namespace X {}` when empty -/
theorem namespace_balanced (ns : Ids) (t : TB)
    (hns : Spec.breakFree (nsSuffix ns) = true)
    (ht : ∀ l ∈ t.header ++ t.lines, Spec.breakFree l = true) :
    (t.lines ≠ [] → (namespaceBlock ns t).lines =
        [L "namespace" ++ nsSuffix ns ++ L " {"] ++ (t.header ++ t.lines) ++ [L "} // namespace" ++ nsSuffix ns]) ∧
    (t.lines = [] → (namespaceBlock ns t).lines = [L "namespace" ++ nsSuffix ns ++ L " {}"]) := by
  constructor
  · intro hne
    have hl : t.lines.isEmpty = false := by cases h : t.lines <;> simp_all
    simp only [namespaceBlock, hl, Bool.false_eq_true, if_false]
    exact block_lines _ _ t (bf3 _ _ _ (by decide) hns (by decide))
      (by rw [breakFree_append, hns]; decide) (by simp) (by simp) ht
  · intro he
    simp only [namespaceBlock, he, List.isEmpty_nil, if_true]
    have hb : Spec.breakFree (L "namespace" ++ nsSuffix ns ++ L " {" ++ L "}") = true := by
      rw [breakFree_append, bf3 _ _ _ (by decide) hns (by decide)]; decide
    simp only [TB.mk', truthy, Bool.false_eq_true, if_false, contentLines, flatten, flattenList,
      Bool.false_and, List.append_nil, List.flatMap_cons, List.flatMap_nil]
    rw [itemLines_breakFree _ hb]
    simp

/-- **structs/classes render balanced**: `struct N`, `{`, unchanged contents, `};` -/
theorem struct_balanced (kw name : Str) (t : TB) (hne : t.lines ≠ [])
    (hk : Spec.breakFree (kw ++ L " " ++ name) = true)
    (ht : ∀ l ∈ t.header ++ t.lines, Spec.breakFree l = true) :
    (structBlock kw name t).lines = [kw ++ L " " ++ name, L "{"] ++ (t.header ++ t.lines) ++ [L "};"] := by
  have hl : t.lines.isEmpty = false := by cases h : t.lines <;> simp_all
  have hwf : Spec.wfContent (.list [.str (kw ++ L " " ++ name), .str (L "{"), t.asContent, .str (L "};")]) = true := by
    simp only [Spec.wfContent, Spec.wfContentL, TB.asContent, Bool.and_true, Bool.true_and,
      Bool.and_eq_true, List.all_eq_true]
    exact ⟨fun l hl => ht l (by simp [hl]), fun l hl => ht l (by simp [hl])⟩
  simp only [structBlock, hl, Bool.false_eq_true, if_false]
  have := C17.lines_eq_pieces _ hwf
  simp only [TB.mk', truthy, Bool.false_eq_true, if_false] at this ⊢
  rw [this]
  have e1 : (kw ++ L " " ++ name).isEmpty = false := by simp
  simp only [Spec.piecesTop, Spec.pieces, Spec.piecesL, TB.asContent, Spec.strPieces, List.append_nil,
    e1, Bool.false_eq_true, if_false, splitlines_single _ (by simp) hk]
  simp [splitlines_single (L "{") (by simp) (by decide), splitlines_single (L "};") (by simp) (by decide)]

/-! ### descriptions the constructors refuse -/

/-- **a rendered function description was accepted by the constructor's validation**: it has a name, a `virtual` one has
    an owning struct/class, and a pure-specifier (`= 0…`) is only ever rendered on a virtual member function of an
    owner — the combinations a C++ compiler would refuse are refused before anything is rendered -/
theorem checked_function (f : Function) (p : Str × Str) (h : f.render = .ok p) :
    f.name ≠ [] ∧ (f.pfx = .virtual → f.scope.isSome = true) ∧
    ((L "0").isPrefixOf f.init = true → f.pfx = .virtual ∧ f.scope.isSome = true) ∧
    p = (f.asDecl, f.asDef) := by
  unfold Function.render Function.check at h
  by_cases hn : f.name.isEmpty = true
  · simp [hn, bind, Except.bind] at h
  · by_cases hv : (f.pfx.isVirtual && f.scope.isNone) = true
    · simp [hn, hv, bind, Except.bind] at h
    · by_cases hz : ((L "0").isPrefixOf f.init && !f.pfx.isVirtual) = true
      · simp [hn, hv, hz, bind, Except.bind] at h
      · simp only [hn, hv, hz, Bool.false_eq_true, if_false, bind, Except.bind, pure, Except.pure] at h
        injection h with h
        have hname : f.name ≠ [] := by
          intro e; apply hn; simp [e]
        have hvs : f.pfx = .virtual → f.scope.isSome = true := by
          intro e
          cases hs : f.scope with
          | none => exfalso; apply hv; simp [e, hs, FnPrefix.isVirtual]
          | some _ => rfl
        refine ⟨hname, hvs, ?_, h.symm⟩
        intro h0
        have : f.pfx = .virtual := by
          cases hp : f.pfx with
          | virtual => rfl
          | member => exfalso; apply hz; simp [h0, hp, FnPrefix.isVirtual]
          | static => exfalso; apply hz; simp [h0, hp, FnPrefix.isVirtual]
        exact ⟨this, hvs this⟩

/-- … and every refusal is the library's own error -/
theorem refused_function (f : Function) (e : PyErr) (h : f.render = .error e) : e = .lib .CppGenError := by
  unfold Function.render Function.check at h
  by_cases hn : f.name.isEmpty = true
  · simp [hn, bind, Except.bind] at h; exact h.symm
  · by_cases hv : (f.pfx.isVirtual && f.scope.isNone) = true
    · simp [hn, hv, bind, Except.bind] at h; exact h.symm
    · by_cases hz : ((L "0").isPrefixOf f.init && !f.pfx.isVirtual) = true
      · simp [hn, hv, hz, bind, Except.bind] at h; exact h.symm
      · simp [hn, hv, hz, bind, Except.bind, pure, Except.pure] at h

/-- a rendered constructor description never combines `= default/delete` with a member initialiser list; with
    `asDef = []` for an initialised one (`initialised_no_def`) no member initialiser is ever rendered without a body -/
theorem checked_constructor (c : Constructor) (p : Str × Str) (h : c.render = .ok p) :
    (c.init = [] ∨ c.mil = []) ∧ p = (c.asDecl, c.asDef) := by
  unfold Constructor.render Constructor.check at h
  by_cases hb : (!c.init.isEmpty && !c.mil.isEmpty) = true
  · simp [hb, bind, Except.bind] at h
  · simp only [hb, Bool.false_eq_true, if_false, bind, Except.bind, pure, Except.pure] at h
    injection h with h
    refine ⟨?_, h.symm⟩
    cases hi : c.init with
    | nil => exact Or.inl rfl
    | cons a t =>
      cases hm : c.mil with
      | nil => exact Or.inr rfl
      | cons b u => exfalso; apply hb; simp [hi, hm]

/-- the hypotheses are satisfiable: `virtual void f() = 0;` in struct S is rendered, `void f() = 0;` is refused -/
example : ({ ret := { fqn := { ids := [L "void"] } }, name := L "f", pfx := .virtual, init := L "0", scope := some (L "S") } : Function).render.isOk = true := by decide
example : ({ ret := { fqn := { ids := [L "void"] } }, name := L "f", init := L "0" } : Function).render.isOk = false := by decide

/-- the text of a rendered pure-virtual declaration starts with `virtual ` -/
theorem pure_specifier_is_virtual (f : Function) (p : Str × Str) (h : f.render = .ok p)
    (h0 : (L "0").isPrefixOf f.init = true) (hb : Spec.breakFree f.declText = true) :
    (L "virtual ").isPrefixOf p.1 = true := by
  obtain ⟨_, _, hv, hp⟩ := checked_function f p h
  obtain ⟨hpfx, _⟩ := hv h0
  subst hp
  simp only
  rw [decl_shape f hb, hpfx]
  simp [FnPrefix.str, List.isPrefixOf]

end C20
