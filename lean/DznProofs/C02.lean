/-
  C02 — Each port runs under exactly the runtime semantics it was configured with.
-/
import DznModel
import DznProofs.C01
open Py Scoping Ast PortSel Shell Sem Lem CppGen

namespace C02

/-- **MTS provides in-event**: whatever context the caller is in, the component's event is
    observed *in dispatcher context* (`disp=1`), the call goes through `dzn::shell` (it blocks until
    the dispatcher has run it: the reply is in the result) and nothing is merely queued -/
theorem mts_provides_in_runs_in_dispatcher (w : World) (n : Nat) (mv p : Str) (ev : Event)
    (ps : List LParam) (byVal : List Str) (args : List Val)
    (hq : w.queue = [])
    (hb : w.get ⟨.bnd mv, .in_, ev.name⟩ =
          some (.ir (.shell ⟨.enc p, .in_, ev.name⟩ ps (ps.map (·.name)) byVal) ev [] []))
    (hc : w.get ⟨.enc p, .in_, ev.name⟩ = some (.scripted .comp p ev))
    (hlen : ps.length = args.length) (hnd : (ps.map (·.name)).Nodup) :
    (invoke (n + 3) w ⟨.bnd mv, .in_, ev.name⟩ args).1.out = C01.obsLine .comp p ev args true :: w.out ∧
    (invoke (n + 3) w ⟨.bnd mv, .in_, ev.name⟩ args).1.shellCalls = w.shellCalls + 1 ∧
    (invoke (n + 3) w ⟨.bnd mv, .in_, ev.name⟩ args).1.posted = w.posted ∧
    (invoke (n + 3) w ⟨.bnd mv, .in_, ev.name⟩ args).1.queue = [] ∧
    (invoke (n + 3) w ⟨.bnd mv, .in_, ev.name⟩ args).1.inDispatch = w.inDispatch ∧
    (∃ rep after, (invoke (n + 3) w ⟨.bnd mv, .in_, ev.name⟩ args).2 = .ok rep after) := by
  rw [C01.env_to_comp_mts_provides w n mv p ev ps byVal args hq hb hc hlen hnd]
  exact ⟨rfl, rfl, rfl, hq, rfl, _, _, rfl⟩

/-- **MTS requires out-event**: the call returns immediately with one more queued closure and no
    observation; the observation appears when the dispatcher runs, in dispatcher context, with
    the argument values *at call time* (they were captured by value) -/
theorem mts_requires_out_is_queued_by_value (w : World) (n : Nat) (mv p : Str) (ev : Event)
    (ps : List LParam) (args : List Val)
    (hq : w.queue = [])
    (hb : w.get ⟨.bnd mv, .out, ev.name⟩ =
          some (.ir (.post ⟨.enc p, .out, ev.name⟩ ps (ps.map (·.name)) (ps.map (·.name))) ev [] []))
    (hc : w.get ⟨.enc p, .out, ev.name⟩ = some (.scripted .comp p ev))
    (hlen : ps.length = args.length) (hnd : (ps.map (·.name)).Nodup) :
    (invoke (n + 1) w ⟨.bnd mv, .out, ev.name⟩ args).1.out = w.out ∧
    (invoke (n + 1) w ⟨.bnd mv, .out, ev.name⟩ args).1.queue.length = 1 ∧
    (invoke (n + 1) w ⟨.bnd mv, .out, ev.name⟩ args).1.posted = w.posted + 1 ∧
    (invoke (n + 1) w ⟨.bnd mv, .out, ev.name⟩ args).1.shellCalls = w.shellCalls ∧
    (drain (n + 3) (invoke (n + 1) w ⟨.bnd mv, .out, ev.name⟩ args).1).1.out =
        C01.obsLine .comp p ev args true :: w.out ∧
    (drain (n + 3) (invoke (n + 1) w ⟨.bnd mv, .out, ev.name⟩ args).1).2 = none := by
  have := C01.requires_out_posted_then_delivered w n mv p ev ps args hq hb hc hlen hnd
  simp only at this
  rw [this.1]
  simp only []
  rw [this.2]
  simp

/-- …and the by-value capture matters: a posted closure that captured an argument by reference
    is flagged as dangling when the dispatcher runs it (so a generator that forgot the capture
    would make the theorem above false) -/
theorem by_reference_capture_dangles (w : World) (n : Nat) (c : Closure) (rest : List Closure)
    (hq : w.queue = c :: rest) (hd : c.dangling = true) :
    (drain (n + 1) w).2 = some .dangling := by
  rw [drain]; simp [hq, hd]

/-- the closure the generator posts captures *every* `in` formal by value, and an out event has
    only `in` formals (assumption A-3): nothing is captured by reference -/
theorem generated_post_captures_by_value (fc : FC) (p : CppPortItf) (as : List Assign)
    (h : rerouteOutEvents fc p = .ok as)
    (hA3 : ∀ ev ∈ outEvents p.dzn.itf, ∀ f ∈ ev.formals, f.dir = .in_) :
    ∀ a ∈ as, ∃ callee ps names, a.rhs = .post callee ps names names := by
  unfold rerouteOutEvents at h
  intro a ha
  obtain ⟨ev, hev, hf⟩ := C01.mapM_mem _ _ _ h a ha
  simp only [bind, Except.bind, pure, Except.pure] at hf
  split at hf
  · cases hf
  · rename_i ps hps
    injection hf with hf; subst hf
    refine ⟨⟨.enc p.name, .out, ev.name⟩, ps, formalNames ev, ?_⟩
    have : inFormalNames ev = formalNames ev := by
      unfold inFormalNames formalNames
      congr 1
      apply List.filter_eq_self.mpr
      intro f hf; simpa using hA3 ev hev f hf
    rw [this]

/-- **STS pass-through**: for a port configured single-threaded the accessor target is the wrapped
    component's own port object, no boundary member is created, and the accessor type is `Sts<…>` -/
theorem sts_passthrough (d : DznPortItf) (structName : Str) (sfns : Ids) (p : CppPortItf)
    (hs : d.sem = .sts) (h : createCppPortItf d structName sfns = .ok p) :
    p.target = L "m_encapsulee." ++ d.port.name ∧ p.memberVar = none ∧
    p.accessor.ret.fqn.ids = sfns ++ [L "Sts"] ∧ p.accessor.ret.targ = some { ids := d.itf.fqn, root := true } := by
  unfold createCppPortItf at h
  simp only [bind, Except.bind, pure, Except.pure] at h
  split at h
  · cases h
  · rw [hs] at h
    simp only at h
    injection h with h; subst h
    exact ⟨rfl, rfl, rfl, rfl⟩

/-- **accessor type**: `Sts<itf>` iff the port is configured STS, `Mts<itf>` iff MTS (also for the
    per-client accessor of a multi-client port) -/
theorem accessor_type (d : DznPortItf) (structName : Str) (sfns : Ids) (p : CppPortItf)
    (h : createCppPortItf d structName sfns = .ok p) :
    p.accessor.ret.fqn.ids = sfns ++ [if d.sem = .sts then L "Sts" else L "Mts"] ∧
    p.accessor.ret.targ = some { ids := d.itf.fqn, root := true } ∧ p.dzn = d := by
  unfold createCppPortItf at h
  simp only [bind, Except.bind, pure, Except.pure] at h
  split at h
  · cases h
  · cases hs : d.sem with
    | sts =>
      rw [hs] at h; simp only at h
      injection h with h; subst h; exact ⟨by simp, rfl, rfl⟩
    | mts =>
      rw [hs] at h
      cases hm : d.mc with
      | none => rw [hm] at h; simp only at h; injection h with h; subst h; exact ⟨by simp, rfl, rfl⟩
      | some m => rw [hm] at h; simp only at h; injection h with h; subst h; exact ⟨by simp, rfl, rfl⟩

/-- **partition**: every exposed port is in exactly one of the two groups -/
theorem partition (ps : List CppPortItf) : (mtsPorts ps ++ stsPorts ps).Perm ps := by
  unfold mtsPorts stsPorts
  have : (ps.filter (fun p => decide (p.dzn.sem = .sts))) = ps.filter (fun p => !decide (p.dzn.sem = .mts)) := by
    apply List.filter_congr
    intro p _
    cases p.dzn.sem <;> simp
  rw [this]
  exact List.filter_append_perm _ ps

end C02
