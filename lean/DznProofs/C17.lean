/-
  C17 — Text blocks keep one line per entry and flatten content losslessly.  (property theorems)
  Model: DznModel.Text; specification: DznModel.SpecText (C17 section); lemmas: Lemmas/Text.
-/
import DznModel
import DznProofs.Lemmas.Text
open Py Text Lem

namespace C17

/-- `splitlines` never leaves a boundary character inside a line -/
theorem splitlines_no_break (s : Str) : ∀ l ∈ splitlines s, Spec.breakFree l = true :=
  splitlines_breakFree s

/-- …and loses nothing else: the lines, concatenated, are the string without its boundaries -/
theorem splitlines_join (s : Str) : (splitlines s).flatten = s.filter (fun c => !isBreak c) :=
  splitlines_flatten s

mutual
/-- core: flattening then splitting = the depth-first pieces (nested position) -/
theorem flat_pieces (c : Content) (h : Spec.wfContent c = true) :
    (flatten false c).flatMap itemLines = Spec.pieces c := by
  cases c with
  | str s => simp [flatten, Spec.pieces, itemLines, Spec.strPieces]
  | int i =>
    simp only [flatten, Spec.pieces, List.flatMap_cons, List.flatMap_nil, List.append_nil]
    exact itemLines_breakFree _ (intToStr_breakFree i)
  | bool b => cases b <;> decide
  | none => rfl
  | list l =>
    simp only [flatten, Spec.pieces]
    exact flat_piecesL l (by simpa [Spec.wfContent] using h)
  | dict l =>
    simp only [flatten, Spec.pieces]
    exact flat_piecesD l (by simpa [Spec.wfContent] using h)
  | tb hd ls =>
    simp only [Spec.wfContent, Bool.and_eq_true, List.all_eq_true] at h
    simp only [flatten, Spec.pieces]
    by_cases he : hd ++ ls = []
    · have := (tbStr_eq_nil hd ls).mpr he
      simp [this, he]
    · have hne : tbStr hd ls ≠ [] := fun e => he ((tbStr_eq_nil hd ls).mp e)
      have hs : tbStr hd ls = join ['\n'] (hd ++ ls) ++ ['\n'] := by
        unfold tbStr; cases hc : hd ++ ls with
        | nil => exact absurd hc he
        | cons a b => simp
      simp only [List.isEmpty_iff, hne, if_false, List.flatMap_cons, List.flatMap_nil,
        List.append_nil, itemLines]
      rw [hs]
      exact Lem.splitlines_join _ he (by
        intro l hl; rcases List.mem_append.mp hl with h1 | h1
        · exact h.1 l h1
        · exact h.2 l h1)
  | comment ls =>
    simp only [Spec.wfContent, List.all_eq_true] at h
    simp only [flatten, Spec.pieces, commentStr]
    by_cases he : commentLines ls = []
    · simp [he, tbStr]
    · have hne : tbStr [] (commentLines ls) ≠ [] :=
        fun e => he (by simpa using (tbStr_eq_nil [] (commentLines ls)).mp e)
      have hs : tbStr [] (commentLines ls) = join ['\n'] (commentLines ls) ++ ['\n'] := by
        unfold tbStr; cases hc : commentLines ls with
        | nil => exact absurd hc he
        | cons a b => simp
      simp only [List.isEmpty_iff, hne, if_false, List.flatMap_cons, List.flatMap_nil,
        List.append_nil, itemLines]
      rw [hs]
      exact Lem.splitlines_join _ he (commentLines_breakFree ls h)
  | obj s =>
    simp only [flatten, Spec.pieces]
    by_cases he : s = []
    · simp [he]
    · simp [he, itemLines]
theorem flat_piecesL (l : List Content) (h : Spec.wfContentL l = true) :
    (flattenList false l).flatMap itemLines = Spec.piecesL l := by
  cases l with
  | nil => rfl
  | cons c cs =>
    simp only [Spec.wfContentL, Bool.and_eq_true] at h
    simp only [flattenList, Spec.piecesL, List.flatMap_append]
    rw [flat_pieces c h.1, flat_piecesL cs h.2]
theorem flat_piecesD (l : List (Str × Content)) (h : Spec.wfContentD l = true) :
    (flattenDict false l).flatMap itemLines = Spec.piecesD l := by
  cases l with
  | nil => rfl
  | cons kc cs =>
    obtain ⟨k, c⟩ := kc
    simp only [Spec.wfContentD, Bool.and_eq_true] at h
    simp only [flattenDict, Spec.piecesD, List.flatMap_append]
    rw [flat_pieces c h.1, flat_piecesD cs h.2]
end

/-- **C17 (lines)**: the lines a content tree contributes to a block are the depth-first,
    left-to-right pieces split at line breaks -/
theorem lines_eq_pieces (c : Content) (h : Spec.wfContent c = true) :
    contentLines c = Spec.piecesTop c := by
  cases c with
  | tb hd ls => rfl
  | comment ls => rfl
  | str s => exact flat_pieces _ h
  | int i => exact flat_pieces _ h
  | bool b => exact flat_pieces _ h
  | none => exact flat_pieces _ h
  | list l => exact flat_pieces _ h
  | dict l => exact flat_pieces _ h
  | obj s => exact flat_pieces _ h

/-- **C17 (no stored line contains a line break)** — for every content tree whose nested block
    objects respect the invariant themselves; so the invariant is inductive over construction -/
theorem no_break (c : Content) (h : Spec.wfContent c = true) :
    ∀ l ∈ contentLines c, Spec.breakFree l = true := by
  have key : ∀ c : Content, ∀ l ∈ (flatten false c).flatMap itemLines, Spec.breakFree l = true := by
    intro c l hl
    obtain ⟨s, _, hs⟩ := List.mem_flatMap.mp hl
    exact itemLines_all_breakFree s l hs
  cases c with
  | tb hd ls =>
    simp only [Spec.wfContent, Bool.and_eq_true, List.all_eq_true] at h
    exact h.2
  | comment ls => simpa [Spec.wfContent, contentLines] using h
  | str s => exact key _
  | int i => exact key _
  | bool b => exact key _
  | none => exact key _
  | list l => exact key _
  | dict l => exact key _
  | obj s => exact key _

/-- the string form is every header and content line followed by exactly one newline -/
theorem str_spec (t : TB) : t.toStr = Spec.strSpec t.header t.lines := by
  unfold TB.toStr tbStr Spec.strSpec
  generalize t.header ++ t.lines = xs
  induction xs with
  | nil => rfl
  | cons a r ih =>
    cases r with
    | nil => simp [join]
    | cons b r' =>
      simp only [List.isEmpty_cons, Bool.false_eq_true, if_false, List.flatMap_cons] at ih ⊢
      rw [← ih]; simp [join]

/-- feeding a non-empty block's string form back in reproduces the same lines -/
theorem roundtrip (t : TB) (hinv : ∀ l ∈ t.lines, Spec.breakFree l = true) (hne : t.lines ≠ []) :
    (TB.mk' (.str (tbStr [] t.lines))).lines = t.lines := by
  have hs : tbStr [] t.lines = join ['\n'] t.lines ++ ['\n'] := by
    unfold tbStr; cases hc : t.lines with
    | nil => exact absurd hc hne
    | cons a b => simp
  have hn : tbStr [] t.lines ≠ [] := by rw [hs]; simp
  have := Lem.splitlines_join _ hne hinv
  rw [← hs] at this
  simp [TB.mk', contentLines, flatten, itemLines, hn, this]

/-- appending is concatenation -/
theorem append_concat (t : TB) (c : Content) (h : Spec.wfContent c = true) :
    (t.append c).lines = t.lines ++ Spec.piecesTop c := by
  simp [TB.append, lines_eq_pieces c h]

/-- `+` is concatenation too (given the block invariant) -/
theorem add_concat (t : TB) (c : Content) (hinv : ∀ l ∈ t.lines, Spec.breakFree l = true)
    (h : Spec.wfContent c = true) : (t.add c).lines = t.lines ++ Spec.piecesTop c := by
  simp only [TB.add]
  rw [flatMap_itemLines_id]
  · rw [lines_eq_pieces c h]
  · intro l hl
    rcases List.mem_append.mp hl with h1 | h1
    · exact hinv l h1
    · exact no_break c h l h1

theorem trimFront_eq (ls : List Str) : trimFront ls = ls.dropWhile (·.isEmpty) := by
  induction ls with
  | nil => rfl
  | cons a r ih => simp only [trimFront, List.dropWhile_cons]; split <;> simp_all

/-- trimming removes only leading/trailing blank (empty) lines -/
theorem trim_spec (ls : List Str) (e : Bool) : trimList ls e = Spec.trimSpec ls e := by
  simp [trimList, Spec.trimSpec, trimFront_eq]

theorem flatten_strList (b : Bool) (xs : List Str) (h : ∀ x ∈ xs, x ≠ []) :
    flatten b (strList xs) = xs := by
  simp only [strList, flatten]
  induction xs with
  | nil => rfl
  | cons a r ih =>
    simp only [List.map_cons, flattenList, flatten]
    have : a ≠ [] := h a (by simp)
    simp [this, ih (fun x hx => h x (by simp [hx]))]

mutual
theorem flatten_true_ne_nil (c : Content) : ∀ x ∈ flatten true c, x ≠ [] := by
  cases c with
  | str s => intro x hx; simp [flatten] at hx; exact hx.2 ▸ (by simpa using hx.1)
  | int i => intro x hx; simp [flatten] at hx; subst hx; exact intToStr_ne_nil i
  | bool b => intro x hx; simp [flatten] at hx; subst hx; cases b <;> decide
  | none => intro x hx; simp [flatten] at hx
  | list l => simpa [flatten] using flatten_true_ne_nilL l
  | dict l => simpa [flatten] using flatten_true_ne_nilD l
  | tb hd ls => intro x hx; simp [flatten] at hx; exact hx.2 ▸ (by simpa using hx.1)
  | comment ls => intro x hx; simp [flatten] at hx; exact hx.2 ▸ (by simpa using hx.1)
  | obj s => intro x hx; simp [flatten] at hx; exact hx.2 ▸ (by simpa using hx.1)
theorem flatten_true_ne_nilL (l : List Content) : ∀ x ∈ flattenList true l, x ≠ [] := by
  cases l with
  | nil => intro x hx; simp [flattenList] at hx
  | cons c cs =>
    intro x hx; simp only [flattenList, List.mem_append] at hx
    rcases hx with h | h
    · exact flatten_true_ne_nil c x h
    · exact flatten_true_ne_nilL cs x h
theorem flatten_true_ne_nilD (l : List (Str × Content)) : ∀ x ∈ flattenDict true l, x ≠ [] := by
  cases l with
  | nil => intro x hx; simp [flattenDict] at hx
  | cons kc cs =>
    obtain ⟨k, c⟩ := kc
    intro x hx; simp only [flattenDict, List.mem_append] at hx
    rcases hx with h | h
    · exact flatten_true_ne_nil c x h
    · exact flatten_true_ne_nilD cs x h
end

/-- chunking yields nothing for empty content and content plus appendix otherwise -/
theorem chunk_spec (c ap : Content) (h : Spec.wfContent c = true) :
    (chunk c ap).map (·.lines) = Spec.chunkSpec c ap := by
  unfold chunk Spec.chunkSpec Spec.emptyContent
  split
  · rfl
  · simp only [Option.map_some, TB.mk', contentLines, flatten, flattenList, List.append_nil,
      List.flatMap_append, Option.some.injEq]
    rw [flat_pieces c h, flatten_strList false _ (flatten_true_ne_nil ap)]
    rfl

theorem pieces_strList (xs : List Str) : Spec.pieces (strList xs) = xs.flatMap Spec.strPieces := by
  simp only [strList, Spec.pieces]
  induction xs with
  | nil => rfl
  | cons a r ih => simp [Spec.piecesL, Spec.pieces, ih]

theorem wf_strList (xs : List Str) : Spec.wfContent (strList xs) = true := by
  simp only [strList, Spec.wfContent]
  induction xs with
  | nil => rfl
  | cons a r ih => simp [Spec.wfContentL, Spec.wfContent, ih]

/-- `cond_chunk` = its specification (content never filtered, appendix once) -/
theorem cond_chunk_spec (p c e ap : Content) (aon : Bool) (h : Spec.wfContent c = true) (he : Spec.wfContent e = true) :
    (condChunk p c e ap aon).map (·.lines) = Spec.condChunkSpec p c e ap aon := by
  unfold condChunk Spec.condChunkSpec Spec.emptyContent
  by_cases hc : (flatten true c).isEmpty = true
  · simp only [hc, Bool.and_true, if_true, Bool.not_true, Bool.false_eq_true, if_false]
    cases aon with
    | true =>
      simp only [if_true]
      split
      · simp [TB.mk', lines_eq_pieces e he]
      · rfl
    | false =>
      simp only [Bool.false_eq_true, if_false]
      rw [chunk_spec _ _ (by simp [Spec.wfContent, Spec.wfContentL, wf_strList])]
      unfold Spec.chunkSpec Spec.emptyContent
      have hfl : flatten true (.list [strList (flatten true p), strList (flatten true e)]) =
          flatten true p ++ flatten true e := by
        simp [flatten, flattenList, flatten_strList true _ (flatten_true_ne_nil p),
          flatten_strList true _ (flatten_true_ne_nil e)]
      rw [hfl]
      by_cases hpe : (flatten true p).isEmpty = true ∧ (flatten true e).isEmpty = true
      · simp [List.isEmpty_iff.mp hpe.1, List.isEmpty_iff.mp hpe.2]
      · have : (flatten true p ++ flatten true e).isEmpty = false := by
          cases h1 : flatten true p <;> cases h2 : flatten true e <;> simp_all
        simp only [this, Bool.false_eq_true, if_false]
        have h2 : ((flatten true p).isEmpty && (flatten true e).isEmpty) = false := by
          cases h1 : (flatten true p).isEmpty <;> cases h2 : (flatten true e).isEmpty <;> simp_all
        simp [h2, Spec.pieces, Spec.piecesL, pieces_strList]
  · simp only [Bool.not_eq_true] at hc
    simp only [hc, Bool.and_false, Bool.false_eq_true, if_false, Bool.not_false, if_true]
    rw [chunk_spec _ _ (by simp [Spec.wfContent, Spec.wfContentL, wf_strList, h])]
    unfold Spec.chunkSpec Spec.emptyContent
    have hfl : (flatten true (.list [strList (flatten true p), c])).isEmpty = false := by
      simp only [flatten, flattenList, List.append_nil]
      cases hfc : flatten true c with
      | nil => simp [hfc] at hc
      | cons a r => simp
    simp [hfl, Spec.pieces, Spec.piecesL, pieces_strList]

/-- non-vacuity: a concrete nested, well-formed tree with boundaries, blanks and a nested block -/
example : Spec.wfContent (.list [.str (L "a\r\nb"), .none, .str [], .tb [] [L "x", []]]) = true ∧
    contentLines (.list [.str (L "a\r\nb"), .none, .str [], .tb [] [L "x", []]])
      = [L "a", L "b", [], L "x", []] := by decide

end C17
