/-
  C04 (full refinement for the specified Deselect) — if `Deselect(id)` clears the selection only when
  `id` is the selected client, the generated selector refines the specification's holder for *every*
  history of claims and releases by registered clients (no side condition).  Together with
  `C04.foreign_release_witness` this isolates the recorded finding D-9 to that one rule.
-/
import DznModel
import DznProofs.C04
open Py Scoping Ast PortSel Shell Sem

namespace C04

/-- the specified rule: only the holder's own selection is cleared -/
def deselectSpec (s : Selector) (id : Str) : Selector :=
  if s.clients.contains id && s.selected = some id then { s with selected := none } else s

def selStepSpec (s : Selector) : Op → Selector
  | .claim c true => s.select c
  | .claim _ false => s
  | .release c => deselectSpec s c

/-- **refinement at full strength for the specified Deselect** -/
theorem refines_specified (s : Selector) (ops : List Op) (hreg : ∀ c ∈ clientsOf ops, c ∈ s.clients) :
    (ops.foldl selStepSpec s).selected = ops.foldl specStep s.selected ∧
    (ops.foldl selStepSpec s).clients = s.clients := by
  induction ops generalizing s with
  | nil => exact ⟨rfl, rfl⟩
  | cons op r ih =>
    simp only [List.foldl_cons]
    have hc : (selStepSpec s op).clients = s.clients := by
      cases op with
      | claim c g => cases g <;> simp [selStepSpec, Selector.select] <;> split <;> rfl
      | release c => simp only [selStepSpec, deselectSpec]; split <;> rfl
    have hsel : (selStepSpec s op).selected = specStep s.selected op := by
      cases op with
      | claim c g =>
        cases g with
        | false => rfl
        | true =>
          have hm : c ∈ s.clients := hreg c (by simp [clientsOf])
          simp [selStepSpec, specStep, Selector.select, hm]
      | release c =>
        have hm : c ∈ s.clients := hreg c (by simp [clientsOf])
        by_cases hs : s.selected = some c
        · simp [selStepSpec, specStep, deselectSpec, hm, hs]
        · simp [selStepSpec, specStep, deselectSpec, hs]
    have := ih (selStepSpec s op)
      (by intro c hc'; rw [hc]; exact hreg c (by cases op <;> simp [clientsOf, hc']))
    rw [hsel] at this
    exact ⟨this.1, this.2.trans hc⟩

/-- on the witness history of D-9 the specified rule keeps the holder -/
example :
    let s : Selector := { mv := L "m_ppApi", port := L "api", clients := [L "A", L "B"] }
    ([Op.claim (L "A") true, Op.release (L "B")].foldl selStepSpec s).selected = some (L "A") := by decide

/-- the two rules agree whenever the releasing client is the holder or nobody holds the claim: the
    side condition of `refines_partial` is exactly where they differ -/
theorem rules_agree (s : Selector) (c : Str) (h : s.selected = none ∨ s.selected = some c) :
    (deselectSpec s c).selected = (s.deselect c).selected := by
  unfold deselectSpec Selector.deselect
  have hmem : (c ∈ s.clients) ∨ ¬ (c ∈ s.clients) := Classical.em _
  rcases hmem with hm | hm
  · rcases h with h | h
    · simp [hm, h]
    · simp [hm, h]
  · simp [hm]

end C04
