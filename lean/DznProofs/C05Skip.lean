/-
  C05 at the level of the JSON document: an element whose `<class>` is none of the classes the parser
  knows — whatever else the element contains — and any non-dict element is skipped; the result is that of
  the document without it (checked on the implementation by the stream `unknown-with-payload`).
-/
import DznModel
open Py Scoping Ast JVal Parser

namespace C05

/-- the class tag is none of the ten classes `parse_element` dispatches on -/
def unknownClass (cls : JVal) : Prop :=
  cls.eqStr (L "namespace") = false ∧ cls.eqStr (L "component") = false ∧ cls.eqStr (L "enum") = false ∧
  cls.eqStr (L "extern") = false ∧ cls.eqStr (L "foreign") = false ∧ cls.eqStr (L "file-name") = false ∧
  cls.eqStr (L "import") = false ∧ cls.eqStr (L "interface") = false ∧ cls.eqStr (L "system") = false ∧
  cls.eqStr (L "subint") = false

/-- an object of an unknown class contributes nothing and raises nothing — whatever its other fields hold -/
theorem unknown_object_skipped (kvs : Obj) (cls : JVal) (ns : NsTree) (fc : FC)
    (hc : lookup (L "<class>") kvs = some cls) (hu : unknownClass cls) :
    parseElement (.obj kvs) ns fc = (fc, none) := by
  obtain ⟨h0, h1, h2, h3, h4, h5, h6, h7, h8, h9⟩ := hu
  rw [parseElement]
  simp only [hc, h0, Bool.false_eq_true, if_false]
  simp [parseSimple, h1, h2, h3, h4, h5, h6, h7, h8, h9]

/-- a non-dict element is skipped -/
theorem nondict_skipped (j : JVal) (ns : NsTree) (fc : FC) (h : ∀ kvs, j ≠ .obj kvs) :
    parseElement j ns fc = (fc, none) := by
  cases j with
  | obj kvs => exact absurd rfl (h kvs)
  | _ => rw [parseElement]; intro kvs hk; cases hk

/-- **siblings are unaffected**: a skipped element anywhere in an element list leaves the result of the list
    what it is without that element -/
theorem skipped_element_irrelevant (x : JVal) (hx : ∀ ns fc, parseElement x ns fc = (fc, none))
    (a b : List JVal) (ns : NsTree) (fc : FC) :
    parseElements (a ++ [x] ++ b) ns fc = parseElements (a ++ b) ns fc := by
  induction a generalizing fc with
  | nil =>
    simp only [List.nil_append, List.singleton_append]
    rw [parseElements]
    simp only [hx]
  | cons y r ih =>
    simp only [List.cons_append]
    rw [parseElements, parseElements]
    cases hy : parseElement y ns fc with
    | mk fc' e =>
      cases e with
      | none => simp only []; exact ih fc'
      | some err => rfl

end C05
