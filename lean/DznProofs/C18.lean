/-
  C18 — Indentation shifts text without changing it.   (property theorems only)
  Model: DznModel.Text (Indentizer, TB.indent); specification: DznModel.SpecText (C18 section).
-/
import DznModel
open Py Text

namespace C18

/-- the model's `_bulletized_indent` is the specified bullet prefix -/
theorem bulletized_eq (i : Indentizer) (m : BulletMode) (g : Str) (h : i.bullet = some (m, g)) :
    i.bulletized = Spec.bulletPrefix i g := by
  unfold Indentizer.bulletized Spec.bulletPrefix
  rw [h]
  cases i.indentor with
  | tab => rfl
  | spaces n =>
    simp only [ljust, spaces, List.length_append, List.length_cons, List.length_nil, List.append_assoc]
    congr 1
    have : max 1 (n - g.length) = (n - (g.length + 0 + 1)) + 1 := by omega
    rw [this, List.replicate_succ]; rfl

/-- `|bullet| = max spaces (|glyph|+1)` -/
theorem bullet_width (n : Nat) (m : BulletMode) (g : Str) :
    (Indentizer.bulletized { indentor := .spaces n, bullet := some (m, g) }).length
      = max n (g.length + 1) := by
  simp [Indentizer.bulletized, ljust, spaces]; omega

/-- the model's `_whitespace` is the specified plain prefix -/
theorem whitespace_eq (i : Indentizer) : i.whitespace = Spec.plainPrefix i := by
  unfold Indentizer.whitespace Spec.plainPrefix
  cases hi : i.indentor with
  | tab => rfl
  | spaces n =>
    cases hb : i.bullet with
    | none => rfl
    | some p =>
      obtain ⟨m, g⟩ := p
      simp only [Indentizer.bulletized, hb, hi, ljust, spaces, List.length_append,
        List.length_cons, List.length_nil, List.length_replicate]
      congr 1; omega

theorem onlyIndent_eq (i : Indentizer) (l : Str) : i.onlyIndent l = Spec.plainLine i l := by
  simp [Indentizer.onlyIndent, Spec.plainLine, whitespace_eq]

/-- **C18 (main)**: for every indenter configuration and every line sequence the output of one
    indentation step satisfies every clause of the specification (no clause fails). -/
theorem step_spec (i : Indentizer) (ls : List Str) :
    Spec.holdsC18_step i ls (i.toListFlat ls) = [] := by
  unfold Spec.holdsC18_step Indentizer.toListFlat
  cases hb : i.bullet with
  | none => simp [onlyIndent_eq]
  | some p =>
    obtain ⟨m, g⟩ := p
    cases m with
    | all => simp [Spec.bulletLine, bulletized_eq i _ g hb]
    | firstOnly =>
      cases ls with
      | nil => simp
      | cons a as => simp [Spec.bulletLine, bulletized_eq i _ g hb, onlyIndent_eq]

/-- number (and order) of lines preserved -/
theorem length_preserved (i : Indentizer) (ls : List Str) :
    (i.toListFlat ls).length = ls.length := by
  unfold Indentizer.toListFlat
  cases i.bullet with
  | none => simp
  | some p =>
    obtain ⟨m, g⟩ := p
    cases m with
    | all => simp
    | firstOnly => cases ls <;> simp

/-- plain mode: every line is either blank and becomes empty, or is prefixed with exactly the
    configured whitespace — its text unchanged -/
theorem plain_text_preserved (i : Indentizer) (hb : i.bullet = none) (ls : List Str) (k : Nat)
    (hk : k < ls.length) :
    ((i.toListFlat ls)[k]'(by rw [length_preserved]; exact hk)) =
      if isBlank ls[k] then [] else Spec.plainPrefix i ++ ls[k] := by
  simp [Indentizer.toListFlat, hb, onlyIndent_eq, Spec.plainLine]

/-- blank lines stay empty: indentation never introduces trailing whitespace on a blank line
    (plain mode and continuation lines) -/
theorem no_trailing_ws_introduced (i : Indentizer) (l : Str) (h : isBlank l = true) :
    i.onlyIndent l = [] := by
  simp [Indentizer.onlyIndent, h]

/-- a header is never indented -/
theorem header_untouched (t : TB) (i : Option Indentizer) : (t.indent i).header = t.header := rfl

/-- repeated indentation is composition of the single steps -/
theorem repeated_is_composition (t : TB) (i j : Indentizer) :
    ((t.indent (some i)).indent (some j)).lines = j.toListFlat (i.toListFlat t.lines) := rfl

/-- the list form and the string form of the indenter agree -/
theorem to_str_agrees (i : Indentizer) (c : Content) :
    i.toStr c = .ok (join ['\n'] (i.toList c) ++ ['\n']) := rfl

/-- non-vacuity: a concrete first-line-only configuration with a glyph wider than the indent -/
example : (Indentizer.toListFlat { indentor := .spaces 2, bullet := some (.firstOnly, L ">>>") }
    [L "a", L "b", L ""]) = [L ">>> a", L "    b", L ""] := by decide

end C18
