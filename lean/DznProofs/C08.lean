/-
  C08 — Output is a pure function of model and configuration. (property theorems)
  A Python `set` is modelled as a duplicate-free list *in whatever order the interpreter iterates
  it* (hash seed, construction order, process): the theorems quantify over every permutation of
  every name set of the configuration and over every iteration order of the model's port-name sets.
  (`build` being a Lean function settles "same inputs, same process-independent outputs" for the
  model; what has to be proved is that nothing observable depends on the orders.)
-/
import DznModel
import DznProofs.C03
open Py Text Scoping Ast AstView PortSel CppGen Support Shell

namespace C08

/-! ### `sorted()` erases the order -/

theorem strLe_refl (a : Str) : strLe a a = true := by
  induction a with
  | nil => rfl
  | cons c cs ih => simp [strLe, ih]

theorem strLe_total (a b : Str) : (strLe a b || strLe b a) = true := by
  induction a generalizing b with
  | nil => simp [strLe]
  | cons c cs ih =>
    cases b with
    | nil => simp [strLe]
    | cons d ds =>
      simp only [strLe]
      by_cases h1 : c.toNat < d.toNat
      · simp [h1]
      · by_cases h2 : d.toNat < c.toNat
        · simp [h1, h2]
        · simp [h1, h2]; simpa using ih ds

theorem strLe_antisymm (a b : Str) (h1 : strLe a b = true) (h2 : strLe b a = true) : a = b := by
  induction a generalizing b with
  | nil => cases b with
    | nil => rfl
    | cons d ds => simp [strLe] at h2
  | cons c cs ih =>
    cases b with
    | nil => simp [strLe] at h1
    | cons d ds =>
      simp only [strLe] at h1 h2
      by_cases hcd : c.toNat < d.toNat
      · have : ¬ d.toNat < c.toNat := by omega
        simp [hcd, this] at h2
      · by_cases hdc : d.toNat < c.toNat
        · simp [hcd, hdc] at h1
        · simp [hcd, hdc] at h1 h2
          have : c = d := Char.toNat_inj.mp (by omega)
          rw [this, ih ds h1 h2]

theorem strLe_trans (a b c : Str) (h1 : strLe a b = true) (h2 : strLe b c = true) : strLe a c = true := by
  induction a generalizing b c with
  | nil => simp [strLe]
  | cons x xs ih =>
    cases b with
    | nil => simp [strLe] at h1
    | cons y ys =>
      cases c with
      | nil => simp [strLe] at h2
      | cons z zs =>
        simp only [strLe] at h1 h2 ⊢
        by_cases hxy : x.toNat < y.toNat
        · by_cases hyz : y.toNat < z.toNat
          · have : x.toNat < z.toNat := by omega
            simp [this]
          · by_cases hzy : z.toNat < y.toNat
            · simp [hyz, hzy] at h2
            · have : x.toNat < z.toNat := by omega
              simp [this]
        · by_cases hyx : y.toNat < x.toNat
          · simp [hxy, hyx] at h1
          · simp [hxy, hyx] at h1
            by_cases hyz : y.toNat < z.toNat
            · have : x.toNat < z.toNat := by omega
              simp [this]
            · by_cases hzy : z.toNat < y.toNat
              · simp [hyz, hzy] at h2
              · simp [hyz, hzy] at h2
                have h3 : ¬ x.toNat < z.toNat := by omega
                have h4 : ¬ z.toNat < x.toNat := by omega
                simp [h3, h4]
                exact ih ys zs h1 h2

/-- **`sorted` of a set does not depend on its iteration order** -/
theorem sorted_perm (a b : List Str) (h : a.Perm b) : sorted a = sorted b := by
  unfold sorted
  apply List.Perm.eq_of_pairwise (le := fun x y => strLe x y = true)
  · intro x y _ _ h1 h2; exact strLe_antisymm x y h1 h2
  · exact List.pairwise_mergeSort (fun a b c => strLe_trans a b c) (fun a b => strLe_total a b) a
  · exact List.pairwise_mergeSort (fun a b c => strLe_trans a b c) (fun a b => strLe_total a b) b
  · exact (List.mergeSort_perm a _).trans (h.trans (List.mergeSort_perm b _).symm)

/-! ### configurations that are equal as Python objects (equal sets, any order) -/

inductive SelEquiv : PortSelect → PortSelect → Prop
  | wild (w) : SelEquiv (.wild w) (.wild w)
  | names (s s' : List Str) (h : s.Perm s') : SelEquiv (.names s) (.names s')

structure CfgEquiv (c c' : SemCfg) : Prop where
  sts : SelEquiv c.sts c'.sts
  mts : SelEquiv c.mts c'.mts

structure PortsEquiv (p p' : PortsCfg) : Prop where
  provides : CfgEquiv p.provides p'.provides
  requires : CfgEquiv p.requires p'.requires
  multiclient : p.multiclient = p'.multiclient

theorem strset_perm {a b} (h : SelEquiv a b) : a.strset.Perm b.strset := by
  cases h with
  | wild w => exact List.Perm.refl _
  | names s s' h => exact h

theorem isWildcardAll_equiv {a b} (h : SelEquiv a b) : a.isWildcardAll = b.isWildcardAll := by
  cases h <;> rfl

theorem isNotEmpty_equiv {a b} (h : SelEquiv a b) : a.isNotEmpty = b.isNotEmpty := by
  cases h <;> rfl

theorem strset_isEmpty_equiv {a b} (h : SelEquiv a b) : a.strset.isEmpty = b.strset.isEmpty := by
  have := (strset_perm h).length_eq
  cases ha : a.strset <;> cases hb : b.strset <;> simp_all

theorem contains_equiv {a b} (h : SelEquiv a b) (p : Str) : a.strset.contains p = b.strset.contains p :=
  C03.contains_perm (strset_perm h) p

/-- **the configuration overview printed into the header** is the same for equal configurations -/
theorem semcfg_str_perm (c c' : SemCfg) (h : CfgEquiv c c') : c.str = c'.str := by
  obtain ⟨s, m⟩ := c; obtain ⟨s', m'⟩ := c'; obtain ⟨hs, hm⟩ := h
  dsimp only at hs hm
  cases hs with
  | wild w =>
    cases hm with
    | wild w' => rfl
    | names t t' ht =>
      have := ht.length_eq
      have he : t.isEmpty = t'.isEmpty := by cases t <;> cases t' <;> simp_all
      simp only [SemCfg.str, PortSelect.strset, PortSelect.isWildcardAll, sorted_perm _ _ ht, he]; try rfl
  | names u u' hu =>
    have := hu.length_eq
    have he : u.isEmpty = u'.isEmpty := by cases u <;> cases u' <;> simp_all
    cases hm with
    | wild w' => simp only [SemCfg.str, PortSelect.strset, PortSelect.isWildcardAll, sorted_perm _ _ hu, he]; try rfl
    | names t t' ht =>
      have := ht.length_eq
      have he' : t.isEmpty = t'.isEmpty := by cases t <;> cases t' <;> simp_all
      simp only [SemCfg.str, PortSelect.strset, PortSelect.isWildcardAll, sorted_perm _ _ hu,
        sorted_perm _ _ ht, he, he']; try rfl

/-- the semantics of a port is the same for equal configurations -/
theorem semOf_perm (c c' : SemCfg) (h : CfgEquiv c c') (p : Str) : c.semOf p = c'.semOf p := by
  obtain ⟨s, m⟩ := c; obtain ⟨s', m'⟩ := c'; obtain ⟨hs, hm⟩ := h
  dsimp only at hs hm
  cases hs with
  | wild w =>
    cases hm with
    | wild w' => rfl
    | names t t' ht => simp only [SemCfg.semOf, PortSelect.strset, C03.contains_perm ht p]; try rfl
  | names u u' hu =>
    cases hm with
    | wild w' => simp only [SemCfg.semOf, PortSelect.strset, C03.contains_perm hu p]; try rfl
    | names t t' ht =>
      simp only [SemCfg.semOf, PortSelect.strset, C03.contains_perm hu p, C03.contains_perm ht p]; try rfl

theorem any_perm {α} (p : α → Bool) {a b : List α} (h : a.Perm b) : a.any p = b.any p := by
  rw [Bool.eq_iff_iff]; simp only [List.any_eq_true]
  constructor
  · rintro ⟨x, hx, hp⟩; exact ⟨x, h.mem_iff.mp hx, hp⟩
  · rintro ⟨x, hx, hp⟩; exact ⟨x, h.mem_iff.mpr hx, hp⟩

theorem all_perm {α} (p : α → Bool) {a b : List α} (h : a.Perm b) : a.all p = b.all p := by
  rw [Bool.eq_iff_iff]; simp only [List.all_eq_true]
  constructor
  · intro H x hx; exact H x (h.mem_iff.mpr hx)
  · intro H x hx; exact H x (h.mem_iff.mp hx)

/-- the whole matched dictionary is the same for equal configurations -/
theorem matchPorts_perm (c c' : SemCfg) (h : CfgEquiv c c') (e : List Str) :
    c.matchPorts e = c'.matchPorts e := by
  unfold SemCfg.matchPorts
  have h1 : (c.sts.strset ++ c.mts.strset).any (fun n => !e.contains n) =
            (c'.sts.strset ++ c'.mts.strset).any (fun n => !e.contains n) :=
    any_perm _ ((strset_perm h.sts).append (strset_perm h.mts))
  have h2 : ∀ p, c.semOf p = c'.semOf p := semOf_perm c c' h
  simp only [h1, h2]

theorem setEq_perm (a a' b b' : List Str) (ha : a.Perm a') (hb : b.Perm b') : setEq a b = setEq a' b' := by
  unfold setEq
  have h1 : a.all (b.contains ·) = a'.all (b'.contains ·) := by
    rw [all_perm _ ha]; congr 1; funext x; exact C03.contains_perm hb x
  have h2 : b.all (a.contains ·) = b'.all (a'.contains ·) := by
    rw [all_perm _ hb]; congr 1; funext x; exact C03.contains_perm ha x
  rw [h1, h2]

theorem sel_eq_perm (a a' b b') (ha : SelEquiv a a') (hb : SelEquiv b b') : a.eq b = a'.eq b' := by
  cases ha <;> cases hb <;> simp [PortSelect.eq]
  exact setEq_perm _ _ _ _ (by assumption) (by assumption)

/-- dataclass equality (which decides between the one-line and the two-line overview) -/
theorem semcfg_eq_perm (a a' b b') (ha : CfgEquiv a a') (hb : CfgEquiv b b') : a.eq b = a'.eq b' := by
  unfold SemCfg.eq
  rw [sel_eq_perm _ _ _ _ ha.sts hb.sts, sel_eq_perm _ _ _ _ ha.mts hb.mts]

/-- the lines of `str(PortsCfg)` in the header comment -/
theorem strLines_perm (p p' : PortsCfg) (h : PortsEquiv p p') : p.strLines = p'.strLines := by
  unfold PortsCfg.strLines
  rw [semcfg_eq_perm _ _ _ _ h.provides h.requires, semcfg_str_perm _ _ h.provides,
    semcfg_str_perm _ _ h.requires, h.multiclient]

theorem matchAll_perm (p p' : PortsCfg) (h : PortsEquiv p p') (prov req : List Str) :
    p.matchAll prov req = p'.matchAll prov req := by
  unfold PortsCfg.matchAll
  rw [matchPorts_perm _ _ h.provides, matchPorts_perm _ _ h.requires]

/-! ### the build sees the configuration's sets only through these functions -/

theorem processPort_cfg (cfg : Config) (ports' : PortsCfg) (hm : cfg.ports.multiclient = ports'.multiclient)
    (fc scope sems) :
    processPort { cfg with ports := ports' } fc scope sems = processPort cfg fc scope sems := by
  funext acc port
  unfold processPort
  simp only [hm]

theorem createDznElements_perm (cfg : Config) (ports' : PortsCfg) (h : PortsEquiv cfg.ports ports') (fc enc) :
    createDznElements { cfg with ports := ports' } fc enc = createDznElements cfg fc enc := by
  unfold createDznElements
  simp only [processPort_cfg cfg ports' h.multiclient, ← matchAll_perm _ _ h, ← h.multiclient]

theorem configurationOverview_perm (cfg : Config) (ports' : PortsCfg) (h : PortsEquiv cfg.ports ports') (o t) :
    configurationOverview { cfg with ports := ports' } o t = configurationOverview cfg o t := by
  unfold configurationOverview
  simp only [← strLines_perm _ _ h, ← h.multiclient]

theorem shellProjectIncludes_cfg (cfg : Config) (ports' : PortsCfg) (h : cfg.ports.multiclient = ports'.multiclient) (o) :
    shellProjectIncludes { cfg with ports := ports' } o = shellProjectIncludes cfg o := by
  unfold shellProjectIncludes
  simp only [← h]

theorem creatorInfoOverview_cfg (cfg : Config) (ports' : PortsCfg) :
    creatorInfoOverview { cfg with ports := ports' } = creatorInfoOverview cfg := rfl

/-- **C08 (configuration order)**: two configurations that are equal as Python objects — the same
    sets of port names, built or iterated in any order — yield the same build result: the same
    eight file names and byte-identical contents (hence identical hashes) -/
theorem build_cfg_order_free (fc : FC) (cfg : Config) (ports' : PortsCfg) (h : PortsEquiv cfg.ports ports') :
    build fc { cfg with ports := ports' } = build fc cfg := by
  unfold build buildShell
  simp only [createDznElements_perm cfg ports' h, configurationOverview_perm cfg ports' h,
    creatorInfoOverview_cfg, shellProjectIncludes_cfg cfg ports' h.multiclient, ← h.multiclient]

/-! ### iteration order of the model's port-name sets -/

/-- the per-port step reads the matched dictionary only through `lookup` -/
theorem processPort_lookup_only (cfg fc scope) (sems sems' : List (Str × Sem))
    (h : ∀ p, sems.lookup p = sems'.lookup p) :
    processPort cfg fc scope sems = processPort cfg fc scope sems' := by
  funext acc port
  unfold processPort
  simp only [h]

/-- **C08 (model-side sets)**: whatever order the two port-name sets are iterated in when the
    dictionary of semantics is built, the exposed ports come out the same -/
theorem ports_order_free (cfg : Config) (fc scope) (ports : List Port) (prov prov' req req' : List Str)
    (hp : prov.Perm prov') (hr : req.Perm req') (m m' : List (Str × Sem))
    (hm : cfg.ports.matchAll prov req = .ok m) (hm' : cfg.ports.matchAll prov' req' = .ok m') :
    ports.foldlM (processPort cfg fc scope m) ([], []) = ports.foldlM (processPort cfg fc scope m') ([], []) := by
  have hl : ∀ p, m.lookup p = m'.lookup p := by
    intro p
    unfold PortsCfg.matchAll at hm hm'
    simp only [bind, Except.bind, pure, Except.pure] at hm hm'
    split at hm
    · cases hm
    · rename_i a ha
      split at hm
      · cases hm
      · rename_i b hb
        split at hm'
        · cases hm'
        · rename_i a' ha'
          split at hm'
          · cases hm'
          · rename_i b' hb'
            injection hm with hm; injection hm' with hm'; subst hm; subst hm'
            rw [C03.lookup_dictUpdate, C03.lookup_dictUpdate,
              C03.order_free_expected _ _ _ hp a a' ha ha' p, C03.order_free_expected _ _ _ hr b b' hb hb' p]
  rw [processPort_lookup_only cfg fc scope m m' hl]

/-- the matching itself succeeds or fails independently of the iteration order -/
theorem matchPorts_ok_order_free (c : SemCfg) (e e' : List Str) (h : e.Perm e') :
    (c.matchPorts e).toBool = (c.matchPorts e').toBool ∧
    (∀ err, c.matchPorts e = .error err ↔ c.matchPorts e' = .error err) := by
  unfold SemCfg.matchPorts
  have h1 : ∀ n, e.contains n = e'.contains n := fun n => C03.contains_perm h n
  simp only [h1]
  constructor
  · split
    · rfl
    · split <;> rfl
  · intro err
    split
    · exact Iff.rfl
    · split
      · exact Iff.rfl
      · constructor <;> (intro hh; cases hh)

/-! ### the hash is MD5 of the UTF-8 contents (RFC 1321 test vectors of the MD5 model) -/

theorem md5_rfc1321_vectors :
    Md5.md5Hex [] = L "d41d8cd98f00b204e9800998ecf8427e" ∧
    Md5.md5Hex (L "a") = L "0cc175b9c0f1b6a831c399e269772661" ∧
    Md5.md5Hex (L "abc") = L "900150983cd24fb0d6963f7d28e17f72" ∧
    Md5.md5Hex (L "message digest") = L "f96b697d7cb7938d525a2f31aaf161d0" := by
  decide +kernel

end C08
