/-
  C04 with a wrapped component that reacts: an out-event the component raises WHILE it handles the
  release of the claim holder is delivered to that holder — the generated release wrapper forwards the
  release first and deselects afterwards (the order `C11.wrapper_order` pins to the generated text).
-/
import DznModel
import DznProofs.Lemmas.Sem
import DznProofs.C01
import DznProofs.C04Gen
import DznProofs.C04Example
import DznProofs.SemReact
open Py Ast Shell Sem Lem

namespace C04

theorem drainR_empty (rx : Reactions) (n : Nat) (w : World) (h : w.queue = []) : drainR rx (n + 1) w = (w, none) := by
  simp [drainR, h]

/-- **release with a reaction**: client `id` holds the claim (it is the selected client) and calls the
    release event; while the wrapped component handles it, it raises the out-event `oev` on the
    multi-client port.  Then the trace shows, in this order, the component's observation of the release
    (in dispatcher context) and the *holder's* observation of the out-event; only after that is the
    client deselected.  (With the two statements of the wrapper swapped the out-event would meet an empty
    selection: that is what the seeded changes C01e/C04e do.) -/
theorem release_reaction_reaches_holder (rx : Reactions) (w : World) (n : Nat) (mv p id : Str) (ev oev : Event)
    (ps ps' psO : List LParam) (byVal : List Str) (args : List Val) (sel : Selector) (itf : InterfaceD) (port : Port)
    (hq : w.queue = [])
    (hcl : w.get ⟨.client mv id, .in_, ev.name⟩ =
      some (.ir (.mcRelease mv ev.name ev.name ps (ps.map (·.name))) ev id mv))
    (harb : w.get ⟨.arb mv, .in_, ev.name⟩ =
      some (.ir (.shell ⟨.enc p, .in_, ev.name⟩ ps' (ps'.map (·.name)) byVal) ev [] []))
    (hc : w.get ⟨.enc p, .in_, ev.name⟩ = some (.scripted .comp p ev))
    -- the out-event path of the multi-client port
    (henc : w.get ⟨.enc p, .out, oev.name⟩ = some (.ir (.ref ⟨.arb mv, .out, oev.name⟩) oev [] []))
    (harbO : w.get ⟨.arb mv, .out, oev.name⟩ = some (.ir (.mcDeliver mv oev.name psO (psO.map (·.name))) oev [] []))
    (hclO : w.get ⟨.client mv id, .out, oev.name⟩ = some (.scripted (.envc id) p oev))
    -- the releasing client is the holder
    (hsel : w.selector mv = some sel) (hs : sel.selected = some id)
    -- the reaction and the declaration of the out-event
    (hrx : rx.lookup (p, ev.name) = some (p, oev.name))
    (hport : w.allPorts.find? (fun pi => pi.1.name = p) = some (port, itf))
    (hoev : itf.events.find? (fun e => e.name = oev.name) = some oev)
    (hlen : ps.length = args.length) (hnd : (ps.map (·.name)).Nodup)
    (hlen' : ps'.length = args.length) (hnd' : (ps'.map (·.name)).Nodup)
    (hlenO : psO.length = oev.formals.length) (hndO : (psO.map (·.name)).Nodup) :
    ∃ w', (invokeR rx (n + 7) w ⟨.client mv id, .in_, ev.name⟩ args).1 = w' ∧
      w'.out = C01.obsLine (.envc id) p oev (List.replicate oev.formals.length 0) true ::
               C01.obsLine .comp p ev args true :: w.out ∧
      w'.selector mv = some (sel.deselect id) := by
  refine ⟨_, rfl, ?_⟩
  -- 1. the per-client release wrapper forwards to the arbitered port
  rw [invokeR]
  simp only [hcl, evalArgs_self ps args hlen hnd]
  -- 2. dzn::shell: nothing pending, the lambda runs in dispatcher context
  rw [invokeR]
  simp only [harb]
  have hd : drainR rx (n + 5) { w with shellCalls := w.shellCalls + 1, pumpTouched := true } =
      ({ w with shellCalls := w.shellCalls + 1, pumpTouched := true }, none) := drainR_empty rx _ _ hq
  simp only [hd, evalArgs_self ps' args hlen' hnd']
  -- 3. the wrapped component observes the release and reacts
  rw [invokeR]
  have hc' : World.get { w with shellCalls := w.shellCalls + 1, pumpTouched := true, inDispatch := true }
      ⟨.enc p, .in_, ev.name⟩ = some (.scripted .comp p ev) := hc
  simp only [resolveSlot, resolveObj, hc']
  have hreact : reactionOf rx (scriptedRun { w with shellCalls := w.shellCalls + 1, pumpTouched := true, inDispatch := true }
      .comp p ev args).1 p ev.name = some (p, oev.name, oev.formals.length) := by
    simp only [reactionOf, hrx]
    have : (scriptedRun { w with shellCalls := w.shellCalls + 1, pumpTouched := true, inDispatch := true }
        .comp p ev args).1.allPorts = w.allPorts := rfl
    simp only [this, hport, hoev]
  simp only [show (Who.comp == Who.comp) = true from rfl, if_true, hreact]
  -- 4. the nested out-event: component port → arbitered port → the selected client
  rw [invokeR]
  have henc' : World.get (scriptedRun { w with shellCalls := w.shellCalls + 1, pumpTouched := true, inDispatch := true }
      .comp p ev args).1 ⟨.enc p, .out, oev.name⟩ = some (.ir (.ref ⟨.arb mv, .out, oev.name⟩) oev [] []) := henc
  simp only [henc', resolveSlot, resolveObj]
  rw [invokeR]
  have harbO' : World.get (scriptedRun { w with shellCalls := w.shellCalls + 1, pumpTouched := true, inDispatch := true }
      .comp p ev args).1 ⟨.arb mv, .out, oev.name⟩ =
      some (.ir (.mcDeliver mv oev.name psO (psO.map (·.name))) oev [] []) := harbO
  have hsel' : World.selector (scriptedRun { w with shellCalls := w.shellCalls + 1, pumpTouched := true, inDispatch := true }
      .comp p ev args).1 mv = some sel := hsel
  have hz : psO.length = (List.replicate oev.formals.length (0 : Val)).length := by simp [hlenO]
  simp only [harbO', hsel', hs, evalArgs_self psO _ hz hndO]
  rw [invokeR]
  have hclO' : World.get (scriptedRun { w with shellCalls := w.shellCalls + 1, pumpTouched := true, inDispatch := true }
      .comp p ev args).1 ⟨.client mv id, .out, oev.name⟩ = some (.scripted (.envc id) p oev) := hclO
  simp only [hclO']
  -- the client's handler is the environment's: no reaction there
  have hne : (Who.envc id == Who.comp) = false := rfl
  simp only [hne, Bool.false_eq_true, if_false]
  have hmv : sel.mv = mv := selector_mv w mv sel hsel
  have sel_after : ∀ (W : World) (s : Selector), s.mv = mv → (W.setSelector s).selector mv = some s := by
    intro W s h; subst h; exact selector_setSelector W s
  split
  · rename_i s2 hs2
    have h2 : w.selector mv = some s2 := hs2
    have e : s2 = sel := by rw [hsel] at h2; exact (Option.some.inj h2).symm
    subst e
    refine ⟨?_, sel_after _ _ (by rw [deselect_mv]; exact hmv)⟩
    simp [scriptedRun, World.emit, C01.obsLine, World.setSelector]
  · rename_i hnone
    have h2 : w.selector mv = none := hnone
    rw [hsel] at h2; cases h2

end C04

/-! ### worked instance (kernel evaluation of the model on the shell of `C04Example`): client `A`'s
    out-event `done` is bound, `A` claims and is granted; the component is told to raise `done` while it
    handles `drop`; `A` releases — inside that call the out-event is observed by `A`, in dispatcher
    context, right after the component's observation of the release, and afterwards nobody is selected -/
namespace C04

def evDone : Event := { name := L "done", replyType := [L "void"], dir := .out, formals := [] }

/-- `A` has bound its out-event and holds the claim -/
def mcHeld : World :=
  let w := mcW.set ⟨.client (L "m_ppP") (L "A"), .out, L "done"⟩ (.scripted (.envc (L "A")) (L "p") evDone)
  (invoke 8 (setReply w (L "p") (L "take") 1) ⟨.client (L "m_ppP") (L "A"), .in_, L "take"⟩ []).1

def rxDrop : Reactions := [((L "p", L "drop"), (L "p", L "done"))]

example : ((mcHeld.selector (L "m_ppP")).bind (·.selected)) = some (L "A") := by decide +kernel

example :
    let r := (invokeR rxDrop 9 { mcHeld with out := [] } ⟨.client (L "m_ppP") (L "A"), .in_, L "drop"⟩ []).1
    r.out.reverse = [L "obs comp p.drop args= disp=1", L "obs env@A p.done args= disp=1"] ∧
    ((r.selector (L "m_ppP")).bind (·.selected)) = none := by decide +kernel

end C04
