/- helper lemmas about splitlines / strip / flatten (kept apart from the property statements) -/
import DznModel
open Py Text

namespace Lem

theorem isBreak_nl : isBreak '\n' = true := by decide
theorem cr_isBreak : isBreak '\r' = true := by decide

theorem splitlines_cons_nonbreak_nil (c : Char) (cs : Str) (h : isBreak c = false)
    (hs : splitlines cs = []) : splitlines (c :: cs) = [[c]] := by
  have hc : c ≠ '\r' := by intro e; subst e; simp [cr_isBreak] at h
  rw [splitlines.eq_3 c cs (by intro cs' h1; exact absurd h1 hc)]
  simp [h, hs]

theorem splitlines_cons_nonbreak_cons (c : Char) (cs l : Str) (ls : List Str)
    (h : isBreak c = false) (hs : splitlines cs = l :: ls) :
    splitlines (c :: cs) = (c :: l) :: ls := by
  have hc : c ≠ '\r' := by intro e; subst e; simp [cr_isBreak] at h
  rw [splitlines.eq_3 c cs (by intro cs' h1; exact absurd h1 hc)]
  simp [h, hs]

theorem splitlines_nl (cs : Str) : splitlines ('\n' :: cs) = [] :: splitlines cs := by
  rw [splitlines.eq_3 '\n' cs (by intro cs' h1; exact absurd h1 (by decide))]
  simp [isBreak_nl]

/-- a break-free prefix followed by a newline is exactly one line -/
theorem splitlines_line_nl (l rest : Str) (h : Spec.breakFree l = true) :
    splitlines (l ++ '\n' :: rest) = l :: splitlines rest := by
  induction l with
  | nil => simpa using splitlines_nl rest
  | cons c cs ih =>
    simp only [Spec.breakFree, List.all_cons, Bool.and_eq_true, Bool.not_eq_eq_eq_not,
      Bool.not_true] at h
    have ih' := ih (by simpa [Spec.breakFree] using h.2)
    simp only [List.cons_append]
    exact splitlines_cons_nonbreak_cons c _ _ _ h.1 ih'

theorem join_cons2 (sep x y : Str) (r : List Str) :
    join sep (x :: y :: r) = x ++ sep ++ join sep (y :: r) := rfl

/-- feeding the string form of non-empty break-free lines back in reproduces the lines -/
theorem splitlines_join (ls : List Str) (hne : ls ≠ []) (h : ∀ l ∈ ls, Spec.breakFree l = true) :
    splitlines (join ['\n'] ls ++ ['\n']) = ls := by
  induction ls with
  | nil => exact absurd rfl hne
  | cons l r ih =>
    cases r with
    | nil =>
      simp only [join]
      rw [splitlines_line_nl l [] (h l (by simp))]; simp [splitlines]
    | cons l' r' =>
      rw [join_cons2]
      simp only [List.append_assoc, List.cons_append]
      rw [splitlines_line_nl l _ (h l (by simp))]
      congr 1
      exact ih (by simp) (fun x hx => h x (by simp [hx]))

theorem splitlines_breakFree (s : Str) : ∀ l ∈ splitlines s, Spec.breakFree l = true := by
  fun_induction splitlines s with
  | case1 => simp
  | case2 cs ih =>
    intro l hl; simp at hl
    rcases hl with rfl | hl
    · rfl
    · exact ih l hl
  | case3 c cs hno hb ih =>
    intro l hl; simp at hl
    rcases hl with rfl | hl
    · rfl
    · exact ih l hl
  | case4 c cs hno hb hs ih => intro l hl; simp at hl; subst hl; simp [Spec.breakFree, hb]
  | case5 c cs hno hb l' ls hs ih =>
    intro l hl; simp at hl
    rcases hl with rfl | hl
    · have := ih l' (by simp [hs]); simp [Spec.breakFree] at this ⊢; exact ⟨by simpa using hb, this⟩
    · exact ih l (by simp [hs, hl])

/-- the concatenated lines are the string with its boundary characters removed -/
theorem splitlines_flatten (s : Str) : (splitlines s).flatten = s.filter (fun c => !isBreak c) := by
  fun_induction splitlines s with
  | case1 => rfl
  | case2 cs ih => simp [ih, cr_isBreak, isBreak_nl]
  | case3 c cs hno hb ih => simp [ih, hb]
  | case4 c cs hno hb hs ih => simp [hs] at ih; simp [hb]; exact ih
  | case5 c cs hno hb l' ls hs ih => simp [hs] at ih; simp [hb, ← ih]

/-- a non-empty break-free string is a single line -/
theorem splitlines_single (l : Str) (hne : l ≠ []) (h : Spec.breakFree l = true) :
    splitlines l = [l] := by
  induction l with
  | nil => exact absurd rfl hne
  | cons c cs ih =>
    simp only [Spec.breakFree, List.all_cons, Bool.and_eq_true, Bool.not_eq_eq_eq_not,
      Bool.not_true] at h
    cases cs with
    | nil => exact splitlines_cons_nonbreak_nil c [] h.1 rfl
    | cons d ds =>
      exact splitlines_cons_nonbreak_cons c _ _ _ h.1
        (ih (by simp) (by simpa [Spec.breakFree] using h.2))

theorem itemLines_breakFree (l : Str) (h : Spec.breakFree l = true) : itemLines l = [l] := by
  unfold itemLines
  cases l with
  | nil => rfl
  | cons c cs => simp; exact splitlines_single _ (by simp) h

theorem flatMap_itemLines_id (ls : List Str) (h : ∀ l ∈ ls, Spec.breakFree l = true) :
    ls.flatMap itemLines = ls := by
  induction ls with
  | nil => rfl
  | cons l r ih =>
    simp only [List.flatMap_cons]
    rw [itemLines_breakFree l (h l (by simp)), ih (fun x hx => h x (by simp [hx]))]; rfl

theorem itemLines_all_breakFree (s : Str) : ∀ l ∈ itemLines s, Spec.breakFree l = true := by
  unfold itemLines; split
  · intro l hl; simp at hl; subst hl; rfl
  · exact splitlines_breakFree s

/-! strip keeps break-freeness (it only removes characters) -/

theorem breakFree_lstrip (s : Str) (h : Spec.breakFree s = true) : Spec.breakFree (lstrip s) = true := by
  induction s with
  | nil => rfl
  | cons c cs ih =>
    simp only [lstrip]; split
    · exact ih (by simp [Spec.breakFree] at h ⊢; exact h.2)
    · exact h

theorem breakFree_reverse (s : Str) : Spec.breakFree s.reverse = Spec.breakFree s := by
  simp [Spec.breakFree, List.all_reverse]

theorem breakFree_strip (s : Str) (h : Spec.breakFree s = true) : Spec.breakFree (strip s) = true := by
  unfold strip rstrip
  rw [breakFree_reverse]
  apply breakFree_lstrip
  rw [breakFree_reverse]
  exact breakFree_lstrip s h

theorem breakFree_append (a b : Str) :
    Spec.breakFree (a ++ b) = (Spec.breakFree a && Spec.breakFree b) := by
  simp [Spec.breakFree]

theorem commentLines_breakFree (ls : List Str) (h : ∀ l ∈ ls, Spec.breakFree l = true) :
    ∀ l ∈ commentLines ls, Spec.breakFree l = true := by
  intro l hl
  simp [commentLines, Indentizer.toListFlat, commentIndentizer] at hl
  obtain ⟨a, ha, rfl⟩ := hl
  apply breakFree_strip
  rw [breakFree_append, h a ha]
  decide

theorem tbStr_eq_nil (h ls : List Str) : (tbStr h ls = []) ↔ (h ++ ls = []) := by
  unfold tbStr
  cases hc : h ++ ls with
  | nil => simp
  | cons a b => simp

/-- digits are never line boundaries -/
theorem natToStr_breakFree (n : Nat) : Spec.breakFree (natToStr n) = true := by
  simp only [natToStr, Nat.toList_repr, Spec.breakFree, List.all_eq_true]
  intro c hc
  have hd := Nat.isDigit_of_mem_toDigits (by decide) (by decide) hc
  have hd' := Char.isDigit_iff_toNat.mp hd
  have h1 : 48 ≤ c.toNat := hd'.1
  have h2 : c.toNat ≤ 57 := hd'.2
  have : ∀ d : Char, isBreak d = true → d.toNat < 48 ∨ 57 < d.toNat := by
    intro d hd
    simp only [isBreak, Bool.or_eq_true, decide_eq_true_eq] at hd
    rcases hd with (((((((((h | h) | h) | h) | h) | h) | h) | h) | h) | h) <;> (subst h; simp)
  cases hb : isBreak c with
  | false => rfl
  | true => have := this c hb; omega

theorem natToStr_ne_nil (n : Nat) : natToStr n ≠ [] := by
  simp only [natToStr, Nat.toList_repr]; exact Nat.toDigits_ne_nil

theorem intToStr_breakFree (i : Int) : Spec.breakFree (intToStr i) = true := by
  cases i with
  | ofNat n => exact natToStr_breakFree n
  | negSucc n =>
    simp only [intToStr, Spec.breakFree, List.all_cons]
    have := natToStr_breakFree (n + 1)
    simp only [Spec.breakFree] at this
    rw [this]; decide

theorem intToStr_ne_nil (i : Int) : intToStr i ≠ [] := by
  cases i with
  | ofNat n => exact natToStr_ne_nil n
  | negSucc n => simp [intToStr]

end Lem
