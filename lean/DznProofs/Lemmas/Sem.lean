/- helper lemmas about the wiring semantics (store, argument passing) -/
import DznModel
open Py Scoping Ast PortSel Shell Sem

namespace Lem

theorem get_set_same (w : World) (s : RSlot) (h : RH) : (w.set s h).get s = some h := by
  simp [World.get, World.set, List.find?]

theorem get_set_other (w : World) (s t : RSlot) (h : RH) (hne : t ≠ s) :
    (w.set s h).get t = w.get t := by
  have hst : ¬ s = t := fun e => hne e.symm
  simp only [World.get, World.set, List.find?_cons, hst, decide_false]
  congr 1
  rw [List.find?_filter]
  congr 1
  funext a
  by_cases ha : a.1 = t
  · simp [ha, hne]
  · simp [ha]

/-- looking a parameter up by its own name finds its own value when names are distinct -/
theorem find_self (ps : List LParam) (vals : List Val) (hlen : ps.length = vals.length)
    (hnd : (ps.map (·.name)).Nodup) (i : Nat) (hi : i < ps.length) :
    ((ps.zip vals).find? (fun pv => pv.1.name = (ps[i]).name)).map (·.2) = some (vals[i]'(hlen ▸ hi)) := by
  induction ps generalizing vals i with
  | nil => simp at hi
  | cons p r ih =>
    cases vals with
    | nil => simp at hlen
    | cons v vs =>
      simp only [List.map_cons, List.nodup_cons] at hnd
      cases i with
      | zero => simp [List.zip_cons_cons, List.find?]
      | succ j =>
        have hj : j < r.length := by simpa using hi
        have hne : p.name ≠ (r[j]).name := by
          intro e; exact hnd.1 (e ▸ List.mem_map.mpr ⟨r[j], List.getElem_mem hj, rfl⟩)
        simp only [List.zip_cons_cons, List.find?, List.getElem_cons_succ]
        have : decide (p.name = (r[j]).name) = false := by simpa using hne
        simp only [this]
        exact ih vs (by simpa using hlen) hnd.2 j hj

/-- calling with the parameters in declared order passes exactly the received values -/
theorem evalArgs_self (ps : List LParam) (vals : List Val) (hlen : ps.length = vals.length)
    (hnd : (ps.map (·.name)).Nodup) : evalArgs ps vals (ps.map (·.name)) = some vals := by
  unfold evalArgs
  have : ∀ (names : List Str) (out : List Val) (hl : names.length = out.length),
      (∀ k (hk : k < names.length), ((ps.zip vals).find? (fun pv => pv.1.name = names[k])).map (·.2) = some (out[k]'(by omega))) →
      names.mapM (fun a => ((ps.zip vals).find? (fun pv => pv.1.name = a)).map (·.2)) = some out := by
    intro names
    induction names with
    | nil =>
      intro out h _
      cases out with
      | nil => rfl
      | cons a b => simp at h
    | cons a r ih =>
      intro out h hk
      cases out with
      | nil => simp at h
      | cons o os =>
        have h0 := hk 0 (by simp)
        simp only [List.getElem_cons_zero] at h0
        rw [List.mapM_cons, h0]
        have := ih os (by simpa using h) (fun k hk' => by
          have := hk (k + 1) (by simp; omega)
          simpa using this)
        simp [this]
  apply this (ps.map (·.name)) vals (by simp [hlen])
  intro k hk
  have hk' : k < ps.length := by simpa using hk
  have := find_self ps vals hlen hnd k hk'
  simpa using this

end Lem
