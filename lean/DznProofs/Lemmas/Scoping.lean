/- helper lemmas for the notation round trips of NamespaceIds (C14.notations) -/
import DznModel
open Py Scoping

namespace Lem

theorem isIdChar_not_dot : isIdChar '.' = false := by decide
theorem isIdChar_not_colon : isIdChar ':' = false := by decide

theorem validId_chars {a : Str} (h : validId a = true) : ∀ c ∈ a, isIdChar c = true := by
  cases a with
  | nil => simp [validId] at h
  | cons c cs =>
    simp only [validId, Bool.and_eq_true, List.all_eq_true] at h
    intro x hx
    rcases List.mem_cons.mp hx with rfl | hx
    · simp [isIdChar, h.1]
    · exact h.2 x hx

theorem validId_ne_nil {a : Str} (h : validId a = true) : a ≠ [] := by
  intro e; subst e; simp [validId] at h

theorem no_dot {a : Str} (h : ∀ c ∈ a, isIdChar c = true) : ∀ c ∈ a, c ≠ '.' := by
  intro c hc e; subst e; have := h _ hc; simp [isIdChar_not_dot] at this

theorem no_colon {a : Str} (h : ∀ c ∈ a, isIdChar c = true) : ∀ c ∈ a, c ≠ ':' := by
  intro c hc e; subst e; have := h _ hc; simp [isIdChar_not_colon] at this

theorem splitChar_append (sep : Char) (a rest cur : Str) (h : ∀ c ∈ a, c ≠ sep) :
    splitChar sep (a ++ rest) cur = splitChar sep rest (a.reverse ++ cur) := by
  induction a generalizing cur with
  | nil => rfl
  | cons c cs ih =>
    have hc : c ≠ sep := h c (by simp)
    simp only [List.cons_append, splitChar, hc, if_false]
    rw [ih (c :: cur) (fun x hx => h x (by simp [hx]))]
    simp

theorem splitChar_join (a : Str) (r : List Str) (cur : Str)
    (h : ∀ x ∈ a :: r, ∀ c ∈ x, c ≠ '.') :
    splitChar '.' (join ['.'] (a :: r)) cur = (cur.reverse ++ a) :: r := by
  induction r generalizing a cur with
  | nil =>
    have := splitChar_append '.' a [] cur (h a (by simp))
    simp only [List.append_nil] at this
    simp [join, this, splitChar]
  | cons b r' ih =>
    show splitChar '.' (a ++ ['.'] ++ join ['.'] (b :: r')) cur = _
    rw [List.append_assoc, splitChar_append '.' a _ cur (h a (by simp))]
    simp only [List.singleton_append, splitChar, if_true]
    rw [ih b [] (fun x hx => h x (by simp [hx]))]
    simp

theorem splitColons_append (a rest cur : Str) (h : ∀ c ∈ a, c ≠ ':') :
    splitColons (a ++ rest) cur = splitColons rest (a.reverse ++ cur) := by
  induction a generalizing cur with
  | nil => rfl
  | cons c cs ih =>
    have hc : c ≠ ':' := h c (by simp)
    simp only [List.cons_append]
    rw [splitColons.eq_3 _ _ _ (by intro cs' e1 _; exact hc e1)]
    rw [ih (c :: cur) (fun x hx => h x (by simp [hx]))]
    simp

theorem splitColons_join (a : Str) (r : List Str) (cur : Str)
    (h : ∀ x ∈ a :: r, ∀ c ∈ x, c ≠ ':') :
    splitColons (join [':', ':'] (a :: r)) cur = (cur.reverse ++ a) :: r := by
  induction r generalizing a cur with
  | nil =>
    have := splitColons_append a [] cur (h a (by simp))
    simp only [List.append_nil] at this
    simp [join, this, splitColons]
  | cons b r' ih =>
    show splitColons (a ++ [':', ':'] ++ join [':', ':'] (b :: r')) cur = _
    rw [List.append_assoc, splitColons_append a _ cur (h a (by simp))]
    show splitColons (':' :: ':' :: join [':', ':'] (b :: r')) _ = _
    rw [splitColons]
    rw [ih b [] (fun x hx => h x (by simp [hx]))]
    simp

theorem hasColons_append_false (a : Str) (h : ∀ c ∈ a, c ≠ ':') : hasColons a = false := by
  induction a with
  | nil => rfl
  | cons c cs ih =>
    have hc : c ≠ ':' := h c (by simp)
    rw [hasColons.eq_3 _ _ (by intro cs' e1 _; exact hc e1)]
    exact ih (fun x hx => h x (by simp [hx]))

theorem hasColons_prefix (a rest : Str) (h : ∀ c ∈ a, c ≠ ':') :
    hasColons (a ++ ':' :: ':' :: rest) = true := by
  induction a with
  | nil => simp [hasColons]
  | cons c cs ih =>
    have hc : c ≠ ':' := h c (by simp)
    simp only [List.cons_append]
    rw [hasColons.eq_3 _ _ (by intro cs' e1 _; exact hc e1)]
    exact ih (fun x hx => h x (by simp [hx]))

theorem mem_join {sep : Str} {l : List Str} {c : Char} (h : c ∈ join sep l) :
    c ∈ sep ∨ ∃ x ∈ l, c ∈ x := by
  induction l with
  | nil => simp [join] at h
  | cons a r ih =>
    cases r with
    | nil => simp only [join] at h; exact Or.inr ⟨a, by simp, h⟩
    | cons b r' =>
      simp only [join, List.mem_append] at h
      rcases h with (h | h) | h
      · exact Or.inr ⟨a, by simp, h⟩
      · exact Or.inl h
      · rcases ih h with h | ⟨x, hx, hc⟩
        · exact Or.inl h
        · exact Or.inr ⟨x, by simp [hx], hc⟩

end Lem
