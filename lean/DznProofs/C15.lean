/-
  C15 — The parser rejects malformed input only with its documented errors. (property theorems)
  The model carries Python's failure modes (PyErr.internal …), so this is not true by typing.
-/
import DznModel
open Py Scoping Ast JVal Parser

namespace C15

/-- the documented errors: the parser's own error and the identifier-validation error -/
def Allowed (e : PyErr) : Prop := e = .lib .DznJsonError ∨ e = .lib .NamespaceIdsTypeError

structure Good {α} (r : R α) : Prop where
  h : ∀ e, r = .error e → Allowed e

theorem good_pure {α} (a : α) : Good (pure a : R α) := ⟨by intro e h; cases h⟩
theorem good_ok {α} (a : α) : Good (.ok a : R α) := ⟨by intro e h; cases h⟩
theorem good_jerr {α} : Good (jerr : R α) := ⟨by intro e h; cases h; exact Or.inl rfl⟩
theorem good_nserr {α} : Good (.error (.lib .NamespaceIdsTypeError) : R α) :=
  ⟨by intro e h; cases h; exact Or.inr rfl⟩

theorem good_bind {α β} {x : R α} {f : α → R β} (hx : Good x) (hf : ∀ a, Good (f a)) :
    Good (x >>= f) := by
  constructor
  intro e h
  cases x with
  | error e' => simp [bind, Except.bind] at h; subst h; exact hx.h _ rfl
  | ok a => exact (hf a).h e h

theorem good_mapM {α β} (f : α → R β) (hf : ∀ a, Good (f a)) (l : List α) : Good (l.mapM f) := by
  induction l with
  | nil => simp [List.mapM_nil]; exact good_pure _
  | cons a r ih =>
    rw [List.mapM_cons]
    exact good_bind (hf a) (fun b => good_bind ih (fun bs => good_pure _))

syntax "good_tac" : tactic
macro_rules
  | `(tactic| good_tac) => `(tactic|
      repeat (first
        | with_reducible exact good_pure _
        | with_reducible exact good_ok _
        | with_reducible exact good_jerr
        | with_reducible exact good_nserr
        | assumption
        | (with_reducible apply good_bind)
        | (intro _)
        | split))

theorem good_asObj (j : JVal) : Good (asObj j) := by unfold asObj; good_tac
theorem good_tryGetStr (o k) : Good (tryGetStr o k) := by unfold tryGetStr; good_tac
theorem good_getStr (o k) : Good (getStr o k) := by
  unfold getStr; apply good_bind (good_tryGetStr o k); intro a; good_tac
theorem good_tryGetDict (o k) : Good (tryGetDict o k) := by unfold tryGetDict; good_tac
theorem good_getDict (o k) : Good (getDict o k) := by
  unfold getDict; apply good_bind (good_tryGetDict o k); intro a; good_tac
theorem good_getInt (o k) : Good (getInt o k) := by unfold getInt; good_tac
theorem good_getList (o k) : Good (getList o k) := by unfold getList; good_tac
theorem good_assertClass (o c) : Good (assertClass o c) := by unfold assertClass; good_tac
theorem good_getClassValue (j) : Good (getClassValue j) := by unfold getClassValue; good_tac
theorem good_mkIds (l) : Good (mkIds l) := by unfold mkIds; good_tac
theorem good_idsOfJson (l) : Good (idsOfJson l) := by
  unfold idsOfJson; split
  · exact good_mkIds _
  · exact good_nserr

syntax "good_fn" : tactic
set_option hygiene false in
macro_rules
  | `(tactic| good_fn) => `(tactic|
      repeat (first
        | with_reducible exact good_pure _
        | with_reducible exact good_ok _
        | with_reducible exact good_jerr
        | with_reducible exact good_nserr
        | with_reducible exact good_asObj _
        | with_reducible exact good_getStr _ _
        | with_reducible exact good_tryGetStr _ _
        | with_reducible exact good_getDict _ _
        | with_reducible exact good_tryGetDict _ _
        | with_reducible exact good_getInt _ _
        | with_reducible exact good_getList _ _
        | with_reducible exact good_assertClass _ _
        | with_reducible exact good_getClassValue _
        | with_reducible exact good_idsOfJson _
        | with_reducible exact h1 _
        | with_reducible exact h2 _
        | with_reducible exact h3 _
        | with_reducible exact h4 _
        | with_reducible exact h1 _ _
        | with_reducible exact h2 _ _
        | assumption
        | (with_reducible apply good_mapM)
        | (with_reducible apply good_bind)
        | (intro _)
        | split))

theorem good_parseScopeName (j) : Good (parseScopeName j) := by unfold parseScopeName; good_fn
theorem good_parseFormalDirection (s) : Good (parseFormalDirection s) := by
  unfold parseFormalDirection; good_fn
theorem good_parseFormal (j) : Good (parseFormal j) := by
  unfold parseFormal
  have h1 := good_parseScopeName; have h2 := good_parseFormalDirection
  good_fn
theorem good_parseFormals (j) : Good (parseFormals j) := by
  unfold parseFormals; have h1 := good_parseFormal; good_fn
theorem good_parseEventDirection (s) : Good (parseEventDirection s) := by
  unfold parseEventDirection; good_fn
theorem good_parseSignature (j) : Good (parseSignature j) := by
  unfold parseSignature; have h1 := good_parseScopeName; have h2 := good_parseFormals; good_fn
theorem good_parseEvent (j) : Good (parseEvent j) := by
  unfold parseEvent; have h1 := good_parseSignature; have h2 := good_parseEventDirection; good_fn
theorem good_parseEvents (j) : Good (parseEvents j) := by
  unfold parseEvents; have h1 := good_parseEvent; good_fn
theorem good_parsePortDirection (s) : Good (parsePortDirection s) := by
  unfold parsePortDirection; good_fn
theorem good_parseInjected (j) : Good (parseInjected j) := by unfold parseInjected; good_fn
theorem good_parsePort (j) : Good (parsePort j) := by
  unfold parsePort
  have h1 := good_parseScopeName; have h2 := good_parsePortDirection; have h3 := good_parseFormals
  have h4 := good_parseInjected
  good_fn
theorem good_parsePorts (j) : Good (parsePorts j) := by
  unfold parsePorts; have h1 := good_parsePort; good_fn
theorem good_parseFields (j) : Good (parseFields j) := by unfold parseFields; good_fn
theorem good_parseEnum (j ns) : Good (parseEnum j ns) := by
  unfold parseEnum; have h1 := good_parseScopeName; have h2 := good_parseFields; good_fn
theorem good_parseRange (j) : Good (parseRange j) := by unfold parseRange; good_fn
theorem good_parseSubint (j ns) : Good (parseSubint j ns) := by
  unfold parseSubint; have h1 := good_parseScopeName; have h2 := good_parseRange; good_fn
theorem good_parseData (j) : Good (parseData j) := by unfold parseData; good_fn
theorem good_parseExtern (j ns) : Good (parseExtern j ns) := by
  unfold parseExtern; have h1 := good_parseScopeName; have h2 := good_parseData; good_fn
theorem good_parseComponentLike (c j ns) : Good (parseComponentLike c j ns) := by
  unfold parseComponentLike; have h1 := good_parseScopeName; have h2 := good_parsePorts; good_fn
theorem good_parseTypeItem (ns j) : Good (parseTypeItem ns j) := by
  unfold parseTypeItem
  have h1 := fun j => good_parseEnum j ns; have h2 := fun j => good_parseSubint j ns
  good_fn
theorem good_parseTypes (j ns) : Good (parseTypes j ns) := by
  unfold parseTypes; have h1 := good_parseTypeItem ns; good_fn
theorem good_parseInterface (j ns) : Good (parseInterface j ns) := by
  unfold parseInterface
  have h1 := good_parseScopeName; have h2 := fun j ns => good_parseTypes j ns; have h3 := good_parseEvents
  good_fn
theorem good_parseInstance (j) : Good (parseInstance j) := by
  unfold parseInstance; have h1 := good_parseScopeName; good_fn
theorem good_parseInstances (j) : Good (parseInstances j) := by
  unfold parseInstances; have h1 := good_parseInstance; good_fn
theorem good_parseEndpoint (j) : Good (parseEndpoint j) := by unfold parseEndpoint; good_fn
theorem good_parseBinding (j) : Good (parseBinding j) := by
  unfold parseBinding; have h1 := good_parseEndpoint; good_fn
theorem good_parseBindings (j) : Good (parseBindings j) := by
  unfold parseBindings; have h1 := good_parseBinding; good_fn
theorem good_parseSystem (j ns) : Good (parseSystem j ns) := by
  unfold parseSystem
  have h1 := good_parseScopeName; have h2 := good_parsePorts; have h3 := good_parseInstances
  have h4 := good_parseBindings
  good_fn
theorem good_parseFilename (j) : Good (parseFilename j) := by unfold parseFilename; good_fn
theorem good_parseImport (j) : Good (parseImport j) := by unfold parseImport; good_fn
theorem good_parseComment (j) : Good (parseComment j) := by unfold parseComment; good_fn
theorem good_parseNamespaceHead (kvs) : Good (parseNamespaceHead kvs) := by
  unfold parseNamespaceHead; have h1 := good_parseScopeName; good_fn
theorem good_parseRootComment (o) : Good (parseRootComment o) := by
  unfold parseRootComment; have h1 := good_parseComment
  good_fn
theorem good_parseRoot (j) : Good (parseRoot j) := by
  unfold parseRoot; have h1 := good_parseRootComment
  good_fn

theorem addTo_allowed {α} (fc : FC) (r : R α) (f : FC → α → FC) (hr : Good r) :
    ∀ e, (addTo fc r f).2 = some e → Allowed e := by
  intro e h
  cases r with
  | ok a => simp [addTo] at h
  | error e' => simp [addTo] at h; subst h; exact hr.h _ rfl

theorem parseSimple_allowed (cls j ns fc) : ∀ e, (parseSimple cls j ns fc).2 = some e → Allowed e := by
  unfold parseSimple
  split; · exact addTo_allowed _ _ _ (good_parseComponentLike _ _ _)
  split; · exact addTo_allowed _ _ _ (good_parseEnum _ _)
  split; · exact addTo_allowed _ _ _ (good_parseExtern _ _)
  split; · exact addTo_allowed _ _ _ (good_parseComponentLike _ _ _)
  split; · exact addTo_allowed _ _ _ (good_parseFilename _)
  split; · exact addTo_allowed _ _ _ (good_parseImport _)
  split; · exact addTo_allowed _ _ _ (good_parseInterface _ _)
  split; · exact addTo_allowed _ _ _ (good_parseSystem _ _)
  split; · exact addTo_allowed _ _ _ (good_parseSubint _ _)
  intro e h; simp at h

theorem parseElement_allowed :
    (∀ j ns fc, ∀ e, (parseElement j ns fc).2 = some e → Allowed e) ∧
    (∀ js ns fc, ∀ e, (parseElements js ns fc).2 = some e → Allowed e) := by
  apply parseElement.mutual_induct
    (motive1 := fun j ns fc => ∀ e, (parseElement j ns fc).2 = some e → Allowed e)
    (motive2 := fun js ns fc => ∀ e, (parseElements js ns fc).2 = some e → Allowed e)
  · intro ns fc kvs h e he
    rw [parseElement] at he; simp [h] at he; subst he; exact Or.inl rfl
  · intro ns fc kvs d h hd name elems hlt hhead ih e he
    rw [parseElement] at he; simp [h, hd, hhead] at he; exact ih e he
  · intro ns fc kvs d h hd e' hhead e he
    rw [parseElement] at he; simp [h, hd, hhead] at he; subst he
    exact (good_parseNamespaceHead kvs).h _ hhead
  · intro ns fc kvs d h hd e he
    rw [parseElement] at he; simp [h, hd] at he; exact parseSimple_allowed _ _ _ _ e he
  · intro j ns fc hj e he
    rw [parseElement] at he
    · simp at he
    · exact hj
  · intro ns fc e he; rw [parseElements] at he; simp at he
  · intro ns fc j rest fc' h ih1 ih2 e he
    rw [parseElements] at he; simp [h] at he; exact ih2 e he
  · intro ns fc j rest fc' e' h ih1 e he
    rw [parseElements] at he; simp [h] at he; subst he
    exact ih1 e' (by simp [h])

/-- **C15 (no internal error)**: for *every* JSON value, parsing returns file contents or fails
    with the parser's documented error or the identifier-validation error — never with an
    internal exception (KeyError, AttributeError, IndexError, TypeError, …) -/
theorem no_internal (j : JVal) :
    (∃ f, parse j = .ok f) ∨ parse j = .error (.lib .DznJsonError) ∨
      parse j = .error (.lib .NamespaceIdsTypeError) := by
  unfold parse processFrom
  cases hr : parseRoot j with
  | error e =>
    rcases (good_parseRoot j).h e hr with h | h <;> simp [h]
  | ok elems =>
    dsimp only
    cases hp : parseElements elems {} {} with
    | mk fc oe =>
      cases oe with
      | none => exact Or.inl ⟨fc, rfl⟩
      | some e =>
        have := parseElement_allowed.2 elems {} {} e (by simp [hp])
        rcases this with h | h <;> simp [h]

/-- an out event with a non-void reply or with an `out` parameter is always refused -/
theorem parse_event_out_ok (j : JVal) (e : Event) (h : parseEvent j = .ok e) (hd : e.dir = .out) :
    e.replyType = [L "void"] ∧ ∀ f ∈ e.formals, f.dir ≠ .out := by
  unfold parseEvent at h
  simp only [bind, Except.bind, pure, Except.pure] at h
  repeat (split at h <;> try (cases h; done))
  all_goals (try (injection h with h; subst h; simp_all))

/-! ### lifting the out-event check to whole documents -/

def evOk (e : Event) : Bool :=
  e.dir = .in_ || (e.replyType = [L "void"] && e.formals.all (fun x => x.dir ≠ .out))

theorem parseEvent_evOk (j : JVal) (e : Event) (h : parseEvent j = .ok e) : evOk e = true := by
  unfold evOk
  cases hd : e.dir with
  | in_ => simp
  | out =>
    have := parse_event_out_ok j e h hd
    simp [this.1]; exact this.2

theorem mapM_ok_mem {α β} (f : α → R β) (l : List α) (r : List β) (h : l.mapM f = .ok r) :
    ∀ b ∈ r, ∃ a ∈ l, f a = .ok b := by
  induction l generalizing r with
  | nil => simp [List.mapM_nil, pure, Except.pure] at h; subst h; simp
  | cons a t ih =>
    rw [List.mapM_cons] at h
    simp only [bind, Except.bind, pure, Except.pure] at h
    split at h
    · cases h
    · rename_i b hb
      split at h
      · cases h
      · rename_i bs hbs
        injection h with h; subst h
        intro x hx
        rcases List.mem_cons.mp hx with rfl | hx
        · exact ⟨a, by simp, hb⟩
        · obtain ⟨a', ha', hf⟩ := ih bs hbs x hx
          exact ⟨a', by simp [ha'], hf⟩

theorem parseEvents_evOk (j : JVal) (es : List Event) (h : parseEvents j = .ok es) :
    ∀ e ∈ es, evOk e = true := by
  unfold parseEvents at h
  simp only [bind, Except.bind] at h
  repeat (split at h <;> try (cases h; done))
  intro e he
  obtain ⟨a, _, ha⟩ := mapM_ok_mem _ _ _ h e he
  exact parseEvent_evOk a e ha

theorem parseInterface_evOk (j ns) (i : InterfaceD) (h : parseInterface j ns = .ok i) :
    ∀ e ∈ i.events, evOk e = true := by
  unfold parseInterface at h
  simp only [bind, Except.bind, pure, Except.pure] at h
  repeat (split at h <;> try (cases h; done))
  injection h with h; subst h
  rename_i es hes
  exact parseEvents_evOk _ es hes

def Inv (fc : FC) : Prop := ∀ i ∈ fc.interfaces, ∀ e ∈ i.events, evOk e = true

theorem addTo_inv {α} (fc : FC) (r : R α) (f : FC → α → FC) (hfc : Inv fc)
    (hf : ∀ a, r = .ok a → Inv (f fc a)) : Inv (addTo fc r f).1 := by
  cases r with
  | ok a => exact hf a rfl
  | error e => exact hfc

theorem parseSimple_inv (cls j ns fc) (h : Inv fc) : Inv (parseSimple cls j ns fc).1 := by
  unfold parseSimple
  split; · exact addTo_inv _ _ _ h (fun a _ => h)
  split; · exact addTo_inv _ _ _ h (fun a _ => h)
  split; · exact addTo_inv _ _ _ h (fun a _ => h)
  split; · exact addTo_inv _ _ _ h (fun a _ => h)
  split; · exact addTo_inv _ _ _ h (fun a _ => h)
  split; · exact addTo_inv _ _ _ h (fun a _ => h)
  split
  · apply addTo_inv _ _ _ h
    intro i hi x hx
    simp only [List.mem_append, List.mem_singleton] at hx
    rcases hx with hx | rfl
    · exact h x hx
    · exact parseInterface_evOk j ns _ hi
  split; · exact addTo_inv _ _ _ h (fun a _ => h)
  split; · exact addTo_inv _ _ _ h (fun a _ => h)
  exact h

theorem parseElement_inv :
    (∀ j ns fc, Inv fc → Inv (parseElement j ns fc).1) ∧
    (∀ js ns fc, Inv fc → Inv (parseElements js ns fc).1) := by
  apply parseElement.mutual_induct
    (motive1 := fun j ns fc => Inv fc → Inv (parseElement j ns fc).1)
    (motive2 := fun js ns fc => Inv fc → Inv (parseElements js ns fc).1)
  · intro ns fc kvs h hi; rw [parseElement]; simpa [h] using hi
  · intro ns fc kvs d h hd name elems hlt hhead ih hi
    rw [parseElement]; simp [h, hd, hhead]; exact ih hi
  · intro ns fc kvs d h hd e' hhead hi
    rw [parseElement]; simpa [h, hd, hhead] using hi
  · intro ns fc kvs d h hd hi
    rw [parseElement]; simp [h, hd]; exact parseSimple_inv _ _ _ _ hi
  · intro j ns fc hj hi
    rw [parseElement]
    · exact hi
    · exact hj
  · intro ns fc hi; rw [parseElements]; exact hi
  · intro ns fc j rest fc' h ih1 ih2 hi
    rw [parseElements]; simp [h]
    have := ih1 hi; rw [h] at this; exact ih2 this
  · intro ns fc j rest fc' e' h ih1 hi
    rw [parseElements]; simp [h]
    have := ih1 hi; rw [h] at this; exact this

/-- **C15 (out events)**: no out event with a non-void reply or with an `out` parameter survives
    in any successfully parsed document -/
theorem out_event_refused (j : JVal) (f : FC) (h : parse j = .ok f) : Spec.fcOutEventsOk f = true := by
  have hinv : Inv f := by
    unfold parse processFrom at h
    cases hr : parseRoot j with
    | error e => simp [hr] at h
    | ok elems =>
      simp only [hr] at h
      have := parseElement_inv.2 elems {} {} (by intro i hi; simp at hi)
      cases hp : parseElements elems {} {} with
      | mk fc oe =>
        rw [hp] at h this
        cases oe with
        | none => simp at h; subst h; exact this
        | some e => simp at h
  simp only [Spec.fcOutEventsOk, List.all_eq_true]
  intro i hi e he
  have := hinv i hi e he
  simpa [evOk] using this

end C15
