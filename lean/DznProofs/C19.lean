/-
  C19 — User text rendered as a comment can never become code.  (property theorems, text part;
  the generated-files clause `files_code_independent` lives in DznProofs/C19Files.lean)
-/
import DznModel
import DznProofs.Lemmas.Text
import DznProofs.C17
open Py Text Lem

namespace C19

theorem lstrip_append (a b : Str) :
    lstrip (a ++ b) = if a.all isSpace then lstrip b else lstrip a ++ b := by
  induction a with
  | nil => simp
  | cons c cs ih =>
    simp only [List.cons_append, lstrip, List.all_cons]
    by_cases hc : isSpace c = true
    · simp [hc, ih]
    · simp [hc]

/-- the rendering of one line: `strip("// " ++ l)` is `//` for a blank line and `// ` followed by
    the text without trailing whitespace otherwise — leading whitespace and every other
    character of the user's text are kept, and the line starts with `//` -/
theorem line_spec (l : Str) : strip (L "// " ++ l) = Spec.commentLine l := by
  have h1 : lstrip (L "// " ++ l) = L "// " ++ l := by
    have : isSpace '/' = false := by decide
    show lstrip ('/' :: '/' :: ' ' :: l) = _
    simp [lstrip, this]
  unfold strip; rw [h1]
  unfold rstrip Spec.commentLine isBlank
  rw [List.reverse_append, lstrip_append]
  simp only [List.all_reverse]
  by_cases hb : l.all isSpace = true
  · simp [hb]; decide
  · simp [hb, rstrip]

/-- **C19 (prefix)**: every rendered line is `//` or `// ` + the corresponding source line -/
theorem prefix_spec (ls : List Str) : commentLines ls = ls.map Spec.commentLine := by
  simp only [commentLines, Indentizer.toListFlat, commentIndentizer]
  apply List.map_congr_left
  intro l _
  exact line_spec l

/-- the string form of a comment is the specified rendering -/
theorem render_spec (ls : List Str) : commentStr ls = Spec.commentSpec ls := by
  have := C17.str_spec { header := [], lines := commentLines ls }
  simp only [TB.toStr] at this
  rw [commentStr, this, prefix_spec]; rfl

/-- every rendered line starts with `//`: no part of the user's text can become code -/
theorem starts_with_slashes (ls : List Str) : ∀ r ∈ commentLines ls, (L "//").isPrefixOf r = true := by
  rw [prefix_spec]
  intro r hr
  obtain ⟨l, _, rfl⟩ := List.mem_map.mp hr
  unfold Spec.commentLine
  split
  · decide
  · show List.isPrefixOf ['/', '/'] ('/' :: '/' :: ' ' :: rstrip l) = true
    simp [List.isPrefixOf]

/-- …and it holds for whatever content is put into the comment: the rendered lines are in
    one-to-one correspondence with the depth-first pieces of the content -/
theorem content_rendering (c : Content) (h : Spec.wfContent c = true) :
    commentStr (contentLines c) = Spec.commentSpec (Spec.piecesTop c) := by
  rw [render_spec, C17.lines_eq_pieces c h]

/-- line count and order preserved -/
theorem length_preserved (ls : List Str) : (commentLines ls).length = ls.length := by
  simp [prefix_spec]

example : commentStr [L "a  ", [], L "  b", L " "] = L "// a\n//\n//   b\n//\n" := by decide

end C19
