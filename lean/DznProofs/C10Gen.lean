/-
  C10 (continued) — the `FinalConstruct` body the generator emits, and detection at the level of
  `Builder.build`: the semantics (`Sem.finalStep`) executes the *generated statements*
  (`ir.finalConstruct`); `createFinalConstructFn_stmts` says which statements are generated; the
  `build_*` theorems join the two for every model and configuration the builder accepts.
-/
import DznModel
import DznProofs.C10
import DznProofs.C09
open Py Text Scoping Ast AstView PortSel Shell Sem CppGen Support

namespace C10

def fcStmt (p : CppPortItf) : Str := p.target ++ L ".FinalConstruct();"
def cbStmt (p : CppPortItf) : Str := p.target ++ L ".check_bindings();"
def parentStmt : Str := L "m_encapsulee.dzn_meta.parent = parentComponentMeta;"
def encStmt : Str := L "m_encapsulee.check_bindings();"

/-- the statements of the generated `FinalConstruct` body, in order: `FinalConstruct()` of every
    multi-client port, `check_bindings()` of every other exposed port, the parent meta, the
    component's own `check_bindings()` -/
theorem createFinalConstructFn_stmts (sn : Str) (pp rp : List CppPortItf) :
    (createFinalConstructFn sn pp rp).2 =
      (pp.filter (·.isMc)).map fcStmt ++ ((pp.filter (!·.isMc)).map cbStmt ++ rp.map cbStmt) ++ [parentStmt, encStmt] := rfl

/-! ### which step a generated statement denotes -/

def last (n : Nat) (s : Str) : Str := s.reverse.take n

theorem last_append (n : Nat) (x suf : Str) (h : n ≤ suf.length) : last n (x ++ suf) = last n suf := by
  unfold last
  rw [List.reverse_append, List.take_append_of_le_length (by simpa using h)]

theorem cbStmt_ne_parent (p : CppPortItf) : cbStmt p ≠ parentStmt := by
  intro e
  have := congrArg (last 2) e
  rw [cbStmt, last_append 2 _ _ (by decide)] at this
  revert this; decide

theorem fcStmt_ne_parent (p : CppPortItf) : fcStmt p ≠ parentStmt := by
  intro e
  have := congrArg (last 2) e
  rw [fcStmt, last_append 2 _ _ (by decide)] at this
  revert this; decide

theorem fcStmt_ne_enc (p : CppPortItf) : fcStmt p ≠ encStmt := by
  intro e
  have := congrArg (last 5) e
  rw [fcStmt, last_append 5 _ _ (by decide)] at this
  revert this; decide

theorem fcStmt_ne_cbStmt (p q : CppPortItf) : fcStmt p ≠ cbStmt q := by
  intro e
  have := congrArg (last 5) e
  rw [fcStmt, cbStmt, last_append 5 _ _ (by decide), last_append 5 _ _ (by decide)] at this
  revert this; decide

theorem cbStmt_eq_enc (p : CppPortItf) (h : cbStmt p = encStmt) : p.target = L "m_encapsulee" := by
  have : p.target ++ L ".check_bindings();" = L "m_encapsulee" ++ L ".check_bindings();" := h
  exact List.append_cancel_right this

theorem cbStmt_inj (p q : CppPortItf) (h : cbStmt p = cbStmt q) : p.target = q.target :=
  List.append_cancel_right h

theorem fcStmt_inj (p q : CppPortItf) (h : fcStmt p = fcStmt q) : p.target = q.target :=
  List.append_cancel_right h

/-- the `check_bindings()` statement of an exposed port denotes the check of that port -/
theorem stmtStep_cb (ir : ShellIR) (parent : Bool) (p : CppPortItf) (hp : p ∈ ir.provides ++ ir.requires)
    (hne : p.target ≠ L "m_encapsulee")
    (hinj : ∀ q ∈ ir.provides ++ ir.requires, q.target = p.target → q = p) :
    stmtStep ir parent (cbStmt p) = some (checkStep p) := by
  unfold stmtStep
  have h1 : ¬ cbStmt p = L "m_encapsulee.dzn_meta.parent = parentComponentMeta;" := cbStmt_ne_parent p
  have h2 : ¬ cbStmt p = L "m_encapsulee.check_bindings();" := fun e => hne (cbStmt_eq_enc p e)
  simp only [h1, h2, if_false]
  have h3 : (ir.provides.filter (·.isMc)).find? (fun q => decide (cbStmt p = q.target ++ L ".FinalConstruct();")) = none := by
    apply List.find?_eq_none.mpr
    intro q _ hq
    simp only [decide_eq_true_eq] at hq
    exact fcStmt_ne_cbStmt q p hq.symm
  rw [h3]
  simp only
  rw [C01.find?_unique (ir.provides ++ ir.requires) (fun q => decide (cbStmt p = q.target ++ L ".check_bindings();")) p hp
    (by simp [cbStmt]) (fun q hq hqt => hinj q hq (by simp only [decide_eq_true_eq] at hqt; exact (cbStmt_inj p q hqt).symm))]

/-- the `FinalConstruct()` statement of a multi-client port denotes that selector's final construction -/
theorem stmtStep_fc (ir : ShellIR) (parent : Bool) (p : CppPortItf) (hp : p ∈ ir.provides.filter (·.isMc))
    (hinj : ∀ q ∈ ir.provides.filter (·.isMc), q.target = p.target → q = p) :
    stmtStep ir parent (fcStmt p) = some (mcFinalStep p) := by
  unfold stmtStep
  have h1 : ¬ fcStmt p = L "m_encapsulee.dzn_meta.parent = parentComponentMeta;" := fcStmt_ne_parent p
  have h2 : ¬ fcStmt p = L "m_encapsulee.check_bindings();" := fcStmt_ne_enc p
  simp only [h1, h2, if_false]
  rw [C01.find?_unique (ir.provides.filter (·.isMc)) (fun q => decide (fcStmt p = q.target ++ L ".FinalConstruct();")) p hp
    (by simp [fcStmt]) (fun q hq hqt => hinj q hq (by simp only [decide_eq_true_eq] at hqt; exact (fcStmt_inj p q hqt).symm))]


/-! ### at the level of `Builder.build` -/

/-- the `FinalConstruct` statements of the shell `Builder.build` generates -/
theorem build_final_stmts (fc : FC) (cfg : Config) (b : BuildResult) (h : build fc cfg = .ok b) :
    b.ir.finalConstruct =
      (b.ir.provides.filter (·.isMc)).map fcStmt ++
        ((b.ir.provides.filter (!·.isMc)).map cbStmt ++ b.ir.requires.map cbStmt) ++ [parentStmt, encStmt] := by
  unfold build at h
  simp only [bind, Except.bind, pure, Except.pure] at h
  split at h
  · cases h
  rename_i s hs
  injection h with h
  subst h
  simp only
  unfold buildShell at hs
  simp only [bind, Except.bind, pure, Except.pure] at hs
  split at hs
  · cases hs
  split at hs
  · cases hs
  split at hs
  · cases hs
  split at hs
  · cases hs
  split at hs
  · cases hs
  split at hs
  · cases hs
  split at hs
  · cases hs
  split at hs
  · cases hs
  injection hs with hs
  subst hs
  exact createFinalConstructFn_stmts (getBasename cfg.dezyneFilename ++ cfg.suffix) _ _

theorem target_ne_encapsulee (d : DznPortItf) (sn : Str) (sfns : Ids) (p : CppPortItf)
    (h : createCppPortItf d sn sfns = .ok p) : p.target ≠ L "m_encapsulee" := by
  unfold createCppPortItf at h
  simp only [bind, Except.bind, pure, Except.pure] at h
  split at h
  · cases h
  · split at h <;> (injection h with h; subst h)
    · -- STS: `m_encapsulee.<name>` is longer than `m_encapsulee`
      intro e
      have := congrArg List.length e
      simp at this
    · intro e
      have := congrArg (List.take 4) e
      by_cases hd : d.port.dir = .provides <;> simp [hd] at this
    · intro e
      have := congrArg (List.take 4) e
      simp at this

/-- every exposed port descriptor of a built shell: its target is not the component member itself -/
theorem build_targets (fc : FC) (cfg : Config) (b : BuildResult) (h : build fc cfg = .ok b) :
    ∀ p ∈ b.ir.provides ++ b.ir.requires, p.target ≠ L "m_encapsulee" := by
  obtain ⟨enc, de, pp, rp, ctor, sn, fac, sfns, hde, hpp, hrp, hcc, e1, e2, e5⟩ := C01.build_inv fc cfg b h
  intro p hp
  rw [e1, e2] at hp
  rcases List.mem_append.mp hp with hp | hp
  · obtain ⟨d, _, hcp⟩ := C01.mapM_mem _ _ _ hpp p hp
    exact target_ne_encapsulee d _ _ p hcp
  · obtain ⟨d, _, hcp⟩ := C01.mapM_mem _ _ _ hrp p hp
    exact target_ne_encapsulee d _ _ p hcp

/-- **C10 at the level of `Builder.build` (boundary ports)**: in the shell generated for any
    accepted model and configuration, if a single event of an exposed port that is not the
    multi-client port is left unbound on the object the user binds (the component's own port for
    STS, the boundary member for MTS), final construction does not return normally — in whatever
    state the shell otherwise is.  (`hinj`: no two ports share a boundary member, K-2.) -/
theorem build_detects_unbound_boundary (fc : FC) (cfg : Config) (b : BuildResult) (h : build fc cfg = .ok b)
    (p : CppPortItf) (hp : p ∈ b.ir.provides.filter (!·.isMc) ∨ p ∈ b.ir.requires)
    (hinj : ∀ q ∈ b.ir.provides ++ b.ir.requires, q.target = p.target → q = p)
    (w : World) (hw : w.ir = b.ir) (parent : Bool)
    (e : Event) (he : e ∈ p.dzn.itf.events)
    (hun : w.get ⟨boundaryObj p, evDirOf e, e.name⟩ = none) :
    (finalConstruct w parent).2.isSome = true := by
  have hmem : p ∈ b.ir.provides ++ b.ir.requires := by
    rcases hp with hp | hp
    · simp [(List.mem_filter.mp hp).1]
    · simp [hp]
  apply detect_unbound_boundary w parent p ⟨cbStmt p, ?_, ?_⟩ e he hun
  · rw [hw, build_final_stmts fc cfg b h]
    simp only [List.mem_append, List.mem_map]
    rcases hp with hp | hp
    · exact Or.inl (Or.inr (Or.inl ⟨p, hp, rfl⟩))
    · exact Or.inl (Or.inr (Or.inr ⟨p, hp, rfl⟩))
  · rw [hw]
    exact stmtStep_cb b.ir parent p hmem (build_targets fc cfg b h p hmem) hinj

/-- **C10 at the level of `Builder.build` (the component's own ports)**: an unbound event on any
    port of the wrapped component, injected ones included, is detected -/
theorem build_detects_unbound_component (fc : FC) (cfg : Config) (b : BuildResult) (h : build fc cfg = .ok b)
    (w : World) (hw : w.ir = b.ir) (parent : Bool)
    (p : Port) (itf : InterfaceD) (hp : (p, itf) ∈ w.allPorts) (e : Event) (he : e ∈ itf.events)
    (hun : w.get ⟨.enc p.name, evDirOf e, e.name⟩ = none) :
    (finalConstruct w parent).2.isSome = true := by
  apply detect_unbound_component w parent p itf ?_ hp e he hun
  rw [hw, build_final_stmts fc cfg b h]
  simp [encStmt]

/-- **C10 at the level of `Builder.build` (multi-client port)**: the generated body runs the
    selector's `FinalConstruct()`; so an unbound event on any registered client port is detected,
    and a second final construction is refused -/
theorem build_detects_unbound_client (fc : FC) (cfg : Config) (b : BuildResult) (h : build fc cfg = .ok b)
    (p : CppPortItf) (hp : p ∈ b.ir.provides.filter (·.isMc))
    (hinj : ∀ q ∈ b.ir.provides.filter (·.isMc), q.target = p.target → q = p)
    (w : World) (hw : w.ir = b.ir) (parent : Bool)
    (hsel : ∀ w' : World, w'.store = w.store → ∃ sel, w'.selector p.target = some sel ∧
        (sel.finalConstructed = true ∨ ∃ id ∈ sortedIds sel.clients, ∃ e ∈ p.dzn.itf.events,
          w.get ⟨.client p.target id, evDirOf e, e.name⟩ = none)) :
    (finalConstruct w parent).2.isSome = true := by
  apply detect_unbound_client w parent p ⟨fcStmt p, ?_, ?_⟩ hsel
  · rw [hw, build_final_stmts fc cfg b h]
    simp only [List.mem_append, List.mem_map]
    exact Or.inl (Or.inl ⟨p, hp, rfl⟩)
  · rw [hw]
    exact stmtStep_fc b.ir parent p hp hinj

end C10
