import DznModel
import DznProofs.C04Gen
open Py Text Scoping Ast AstView PortSel CppGen Support Shell Sem Lem

deriving instance DecidableEq for Ast.Formal
deriving instance DecidableEq for Ast.Event
deriving instance DecidableEq for Sem.RH

namespace C04

/-! ### the hypotheses of the history theorems are satisfiable: component `N.C` with the multi-client
    provides port `p : N.I`; `take` (reply `N.R`, granting value `Ok`) claims, `drop` releases,
    `done` is the out-event; clients `A` and `B` are registered -/

def mcItf : InterfaceD :=
  { fqn := [L "N", L "I"], parent := { scopes := [[L "N"]] }, trail := { scopes := [[L "N"], [L "I"]] }, name := [L "I"],
    types := [],
    events := [{ name := L "take", replyType := [L "R"], dir := .in_, formals := [] },
               { name := L "drop", replyType := [L "void"], dir := .in_, formals := [] },
               { name := L "done", replyType := [L "void"], dir := .out, formals := [] }] }

def mcPort : Port := { name := L "p", typeName := [L "I"], dir := .provides, formals := [], injected := false }

def mcFc : FC :=
  { components := [{ fqn := [L "N", L "C"], parent := { scopes := [[L "N"]] }, name := [L "C"], ports := [mcPort] }],
    enums := [{ fqn := [L "N", L "R"], parent := { scopes := [[L "N"]] }, name := [L "R"], fields := [.str (L "No"), .str (L "Ok")] }],
    interfaces := [mcItf] }

def mcCfg : Config :=
  { dezyneFilename := L "M.dzn", suffix := L "AdvShell", encapsulee := [L "N", L "C"],
    ports := { provides := { sts := .wild .none, mts := .wild .all },
               requires := { sts := .wild .none, mts := .wild .all },
               multiclient := some { portName := L "p", claimEvent := L "take", grant := [L "Ok"], releaseEvent := L "drop" } },
    origin := .create, copyright := .str (L "c") }

def mcB : BuildResult := match build mcFc mcCfg with | .ok b => b | .error _ => default

example : isOk (build mcFc mcCfg) = true := by decide +kernel

def mcP : CppPortItf := mcB.ir.provides.headD default

/-- constructed, clients `A` and `B` registered -/
def mcW : World :=
  match construct mcB.ir mcB.allPorts mcB.grantIndex false false none (L "x") false with
  | .ok w => ((registerClient (registerClient w mcP (L "A")).1 mcP (L "B")).1)
  | .error _ => default

def evTake : Event := { name := L "take", replyType := [L "R"], dir := .in_, formals := [] }
def evDrop : Event := { name := L "drop", replyType := [L "void"], dir := .in_, formals := [] }

example : mcW.queue = [] := by decide +kernel
example : mcW.grantIndex = some 1 := by decide +kernel
example : (mcW.selector (L "m_ppP")).map (·.clients) = some [L "A", L "B"] := by decide +kernel

theorem mc_wired : McWired mcW (L "m_ppP") (L "p") evTake evDrop [] [] [] [] [] [] (L "::N::R::Ok") [L "A", L "B"] where
  clClaim := by decide +kernel
  arbClaim := by decide +kernel
  compClaim := by decide +kernel
  clRelease := by decide +kernel
  arbRelease := by decide +kernel
  compRelease := by decide +kernel
  claimValued := by decide +kernel
  ndC := by decide
  ndA := by decide
  ndR := by decide
  ndB := by decide
  lenA := rfl
  lenB := rfl


def mcSel : Selector := (mcW.selector (L "m_ppP")).getD default

theorem mc_sel : mcW.selector (L "m_ppP") = some mcSel := by
  have h : (mcW.selector (L "m_ppP")).isSome = true := by decide +kernel
  unfold mcSel
  cases hs : mcW.selector (L "m_ppP") with
  | none => rw [hs] at h; cases h
  | some s => rfl

/-- the history: `A` claims and is granted, `B` claims and is refused -/
def mcOps : List ClientOp := [.claim (L "A") 1 [], .claim (L "B") 0 []]

/-- **non-vacuity of `history_holder`**: on the worked shell, after that history — executed through
    the generated wrappers — the selected client is `A` -/
theorem mc_example :
    ∃ s', (mcOps.foldl (runOp 0 (L "m_ppP") (L "p") evTake evDrop) mcW).selector (L "m_ppP") = some s' ∧
      s'.selected = some (L "A") := by
  obtain ⟨s', h1, h2⟩ := history_holder 0 (L "m_ppP") (L "p") evTake evDrop [] [] [] [] [] [] (L "::N::R::Ok")
    [L "A", L "B"] 1 mcOps mcW mcSel mc_wired (by decide +kernel) (by decide +kernel) mc_sel
    (by intro op hop; simp only [mcOps, List.mem_cons, List.not_mem_nil, or_false] at hop
        rcases hop with rfl | rfl <;> simp [ClientOp.id])
    (by intro op hop; simp only [mcOps, List.mem_cons, List.not_mem_nil, or_false] at hop
        rcases hop with rfl | rfl <;> simp [ClientOp.argsOk])
    (by
      have hc : mcSel.clients = [L "A", L "B"] := by decide +kernel
      intro op hop; simp only [mcOps, List.mem_cons, List.not_mem_nil, or_false] at hop
      rcases hop with rfl | rfl <;> simp [ClientOp.id, hc])
    (by
      have hs : mcSel.selected = none := by decide +kernel
      rw [hs]
      simp [mcOps, ClientOp.abs, NoForeignRelease])
  refine ⟨s', h1, ?_⟩
  rw [h2]
  have hs : mcSel.selected = none := by decide +kernel
  rw [hs]; decide

end C04
