/-
  C16 — Parses are isolated and repeatable.  (property theorems over the parser-object model)
-/
import DznModel
open Py Ast ParserObj

namespace C16

theorem getI_setI_same (s : State) (k : Nat) (i : Inst) : getI (setI s k i) k = i := by
  simp [getI, setI, List.lookup]

theorem getI_setI_other (s : State) (k k' : Nat) (i : Inst) (h : k' ≠ k) :
    getI (setI s k i) k' = getI s k' := by
  unfold getI setI
  have hb : (k' == k) = false := by simpa using h
  simp only [List.lookup, hb]
  congr 1
  induction s with
  | nil => rfl
  | cons p r ih =>
    obtain ⟨a, b⟩ := p
    simp only [List.filter]
    by_cases ha : a = k
    · subst ha
      have : (k' == a) = false := hb
      simp [List.lookup, this, ih]
    · have : (a != k) = true := by simpa using ha
      simp only [this, List.lookup]
      split <;> simp_all

/-- `process()` returns exactly what a fresh parser returns for the loaded document, whatever
    the instance's accumulator holds from earlier calls -/
theorem process_is_fresh_parse (i : Inst) :
    (processInst i).2 = Parser.parse (i.ast.getD .null) := by
  unfold processInst Parser.parse
  cases Parser.processFrom (i.ast.getD .null) {} with
  | mk fc oe => cases oe <;> rfl

theorem process_keeps_doc (i : Inst) : (processInst i).1.ast = i.ast := by
  unfold processInst
  cases Parser.processFrom (i.ast.getD .null) {} with
  | mk fc oe => cases oe <;> rfl

/-- the document held by instance `k` follows only the constructor/load operations on `k` -/
theorem doc_tracks (ops : List Op) (s : State) (k : Nat) :
    (getI (run s ops).1 k).ast = docAfter k ops (getI s k).ast := by
  induction ops generalizing s with
  | nil => rfl
  | cons op ops ih =>
    simp only [run]
    rw [ih]
    cases op with
    | new k' doc =>
      simp only [step, docAfter]
      by_cases h : k' = k
      · subst h; simp [getI_setI_same]
      · simp [h, getI_setI_other _ _ _ _ (Ne.symm h)]
    | load k' doc =>
      simp only [step, docAfter]
      by_cases h : k' = k
      · subst h; simp [getI_setI_same]
      · simp [h, getI_setI_other _ _ _ _ (Ne.symm h)]
    | process k' =>
      simp only [step, docAfter]
      by_cases h : k' = k
      · subst h; simp [getI_setI_same, process_keeps_doc]
      · simp [getI_setI_other _ _ _ _ (Ne.symm h)]

/-- **C16 (history freedom)**: after *any* history of constructions, loads and process() calls
    on any instances, `process()` on instance `k` returns what parsing its currently loaded
    document alone returns — no accumulation, no influence of other instances or earlier parses -/
theorem history_free (ops : List Op) (k : Nat) :
    (step (run [] ops).1 (.process k)).2 =
      some (Parser.parse ((docAfter k ops none).getD .null)) := by
  simp only [step]
  rw [process_is_fresh_parse, doc_tracks]
  rfl

/-- operations on one instance never change what another instance holds -/
theorem instances_isolated (s : State) (op : Op) (k : Nat)
    (h : match op with | .new k' _ => k' ≠ k | .load k' _ => k' ≠ k | .process k' => k' ≠ k) :
    getI (step s op).1 k = getI s k := by
  cases op with
  | new k' doc => exact getI_setI_other _ _ _ _ (Ne.symm h)
  | load k' doc => exact getI_setI_other _ _ _ _ (Ne.symm h)
  | process k' => simp only [step]; exact getI_setI_other _ _ _ _ (Ne.symm h)

theorem docAfter_append_process (k k' : Nat) (ops : List Op) (d : Option JVal) :
    docAfter k (ops ++ [.process k']) d = docAfter k ops d := by
  induction ops generalizing d with
  | nil => rfl
  | cons op r ih => cases op <;> simp [docAfter, ih]

/-- repeating process() yields an equal result (corollary) -/
theorem repeat_equal (ops : List Op) (k : Nat) :
    (step (run [] (ops ++ [.process k])).1 (.process k)).2 = (step (run [] ops).1 (.process k)).2 := by
  rw [history_free, history_free, docAfter_append_process]

end C16
