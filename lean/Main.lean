/- Line-protocol driver: one JSON object per line in, one per line out, same order. -/
import Driver.TextOps
import Driver.ParseOps
import Driver.GenOps
import Driver.BuildOps
import Driver.HeapOps
open Lean

def handleLine (line : String) : String :=
  match Json.parse line with
  | .error e => (Json.mkObj [("fatal", Json.str s!"json: {e}")]).compress
  | .ok j =>
    match j.getObjValAs? String "op" with
    | .error e => (Json.mkObj [("fatal", Json.str e)]).compress
    | .ok op =>
      let r : Except String Json :=
        if op.startsWith "tb." || op.startsWith "ind." || op.startsWith "py." ||
           op == "chunk" || op == "cond_chunk" || op.startsWith "comment." then TextOps.handle op j
        else if ["parse", "c05", "c05.skip", "c16", "sro", "find_fqn", "find_any", "find_single", "ids_t", "ids_notations"].contains op then
          ParseOps.handle op j
        else if op.startsWith "portsel." || op.startsWith "cpp." then GenOps.handle op j
        else if op == "build" || op.startsWith "build." then BuildOps.handle op j
        else if op == "heap" then HeapOps.handle op j
        else .error s!"unknown op {op}"
      match r with
      | .ok out => out.compress
      | .error e => (Json.mkObj [("fatal", Json.str e)]).compress

partial def loop (hin hout : IO.FS.Stream) : IO Unit := do
  let line ← hin.getLine
  if line.isEmpty then return ()
  let t := line.trimAscii.toString
  if !t.isEmpty then hout.putStrLn (handleLine t)
  loop hin hout

def main : IO Unit := do
  let hin ← IO.getStdin
  let hout ← IO.getStdout
  loop hin hout
  hout.flush
