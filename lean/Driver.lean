import Driver.Codec
import Driver.TextOps
import Driver.ParseOps
import Driver.GenOps
import Driver.BuildOps
import Driver.HeapOps
