import Driver.Codec
import Driver.TextOps
