import DznModel.Py
import DznModel.Text
import DznModel.SpecText
